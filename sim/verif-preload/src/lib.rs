//! LD_PRELOAD shim: the simulator at the system-call boundary. Counts the calls by which a
//! process changes the file system (open for writing / creating / truncating, write, pwrite,
//! writev, copy_file_range, sendfile, splice to a file, ftruncate, rename*, link*, unlink*,
//! symlink*) and can end the process (`_exit(86)`) right before the k-th such call or in the
//! middle of it (a write that transfers half of its bytes). It needs no hook in the code under
//! test, so it also reaches I/O that the source-level fault points do not wrap.
//!
//! Environment (read once): VERIF_SYS_LOG=<file> (one line per counted call),
//! VERIF_SYS_DIE_BEFORE=<k>, VERIF_SYS_DIE_MID=<k> (0-based index of the counted call).

use libc::{c_char, c_int, c_uint, c_void, mode_t, off64_t, off_t, size_t, ssize_t};
use std::sync::atomic::{AtomicI32, AtomicI64, AtomicUsize, Ordering};

static COUNT: AtomicI64 = AtomicI64::new(0);
static DIE_BEFORE: AtomicI64 = AtomicI64::new(-2);
static DIE_MID: AtomicI64 = AtomicI64::new(-2);
static LOG_FD: AtomicI32 = AtomicI32::new(-2);

unsafe fn real(name: &[u8], slot: &AtomicUsize) -> usize {
    let p = slot.load(Ordering::Relaxed);
    if p != 0 {
        return p;
    }
    let f = libc::dlsym(libc::RTLD_NEXT, name.as_ptr() as *const c_char) as usize;
    slot.store(f, Ordering::Relaxed);
    f
}

fn env_i64(name: &str) -> i64 {
    std::env::var(name).ok().and_then(|s| s.parse().ok()).unwrap_or(-1)
}

unsafe fn init() {
    if DIE_BEFORE.load(Ordering::Relaxed) == -2 {
        DIE_BEFORE.store(env_i64("VERIF_SYS_DIE_BEFORE"), Ordering::Relaxed);
        DIE_MID.store(env_i64("VERIF_SYS_DIE_MID"), Ordering::Relaxed);
        let fd = match std::env::var("VERIF_SYS_LOG") {
            Ok(p) => {
                let c = std::ffi::CString::new(p).unwrap();
                libc::syscall(libc::SYS_openat, libc::AT_FDCWD, c.as_ptr(), libc::O_WRONLY | libc::O_CREAT | libc::O_APPEND | libc::O_CLOEXEC, 0o644) as i32
            }
            Err(_) => -1,
        };
        LOG_FD.store(fd, Ordering::Relaxed);
    }
}

/// Count one file-system changing call. Returns true when the caller should perform only half
/// of a write and then die.
unsafe fn counted(what: &str, detail: i64) -> bool {
    init();
    let k = COUNT.fetch_add(1, Ordering::SeqCst);
    let fd = LOG_FD.load(Ordering::Relaxed);
    if fd >= 0 {
        let line = format!("{k} {what} {detail}\n");
        libc::syscall(libc::SYS_write, fd, line.as_ptr(), line.len());
    }
    if DIE_BEFORE.load(Ordering::Relaxed) == k {
        libc::_exit(86);
    }
    DIE_MID.load(Ordering::Relaxed) == k
}

unsafe fn is_regular(fd: c_int) -> bool {
    if fd <= 2 || fd == LOG_FD.load(Ordering::Relaxed) {
        return false;
    }
    let mut st: libc::stat = std::mem::zeroed();
    libc::fstat(fd, &mut st) == 0 && (st.st_mode & libc::S_IFMT) == libc::S_IFREG
}

fn changes(flags: c_int) -> bool {
    let acc = flags & libc::O_ACCMODE;
    (acc == libc::O_WRONLY || acc == libc::O_RDWR) && (flags & (libc::O_CREAT | libc::O_TRUNC)) != 0
}

macro_rules! next {
    ($name:literal, $ty:ty) => {{
        static SLOT: AtomicUsize = AtomicUsize::new(0);
        std::mem::transmute::<usize, $ty>(real(concat!($name, "\0").as_bytes(), &SLOT))
    }};
}

#[no_mangle]
pub unsafe extern "C" fn write(fd: c_int, buf: *const c_void, count: size_t) -> ssize_t {
    let f = next!("write", unsafe extern "C" fn(c_int, *const c_void, size_t) -> ssize_t);
    if is_regular(fd) && counted("write", count as i64) {
        f(fd, buf, count / 2);
        libc::_exit(86);
    }
    f(fd, buf, count)
}

#[no_mangle]
pub unsafe extern "C" fn pwrite64(fd: c_int, buf: *const c_void, count: size_t, off: off64_t) -> ssize_t {
    let f = next!("pwrite64", unsafe extern "C" fn(c_int, *const c_void, size_t, off64_t) -> ssize_t);
    if is_regular(fd) && counted("pwrite", count as i64) {
        f(fd, buf, count / 2, off);
        libc::_exit(86);
    }
    f(fd, buf, count, off)
}

#[no_mangle]
pub unsafe extern "C" fn pwrite(fd: c_int, buf: *const c_void, count: size_t, off: off_t) -> ssize_t {
    pwrite64(fd, buf, count, off as off64_t)
}

#[no_mangle]
pub unsafe extern "C" fn writev(fd: c_int, iov: *const libc::iovec, n: c_int) -> ssize_t {
    let f = next!("writev", unsafe extern "C" fn(c_int, *const libc::iovec, c_int) -> ssize_t);
    if is_regular(fd) && counted("writev", n as i64) {
        if n > 0 {
            let first = *iov;
            libc::syscall(libc::SYS_write, fd, first.iov_base, first.iov_len / 2);
        }
        libc::_exit(86);
    }
    f(fd, iov, n)
}

#[no_mangle]
pub unsafe extern "C" fn copy_file_range(fd_in: c_int, off_in: *mut off64_t, fd_out: c_int, off_out: *mut off64_t, len: size_t, flags: c_uint) -> ssize_t {
    let f = next!("copy_file_range", unsafe extern "C" fn(c_int, *mut off64_t, c_int, *mut off64_t, size_t, c_uint) -> ssize_t);
    if is_regular(fd_out) && counted("copy_file_range", len as i64) {
        // half of what is there to copy (len is usually "as much as possible")
        let mut st: libc::stat = std::mem::zeroed();
        let have = if libc::fstat(fd_in, &mut st) == 0 { st.st_size as usize } else { len };
        f(fd_in, off_in, fd_out, off_out, (have.min(len) / 2).max(1), flags);
        libc::_exit(86);
    }
    f(fd_in, off_in, fd_out, off_out, len, flags)
}

#[no_mangle]
pub unsafe extern "C" fn sendfile64(out_fd: c_int, in_fd: c_int, offset: *mut off64_t, count: size_t) -> ssize_t {
    let f = next!("sendfile64", unsafe extern "C" fn(c_int, c_int, *mut off64_t, size_t) -> ssize_t);
    if is_regular(out_fd) && counted("sendfile", count as i64) {
        let mut st: libc::stat = std::mem::zeroed();
        let have = if libc::fstat(in_fd, &mut st) == 0 { st.st_size as usize } else { count };
        f(out_fd, in_fd, offset, (have.min(count) / 2).max(1));
        libc::_exit(86);
    }
    f(out_fd, in_fd, offset, count)
}

#[no_mangle]
pub unsafe extern "C" fn sendfile(out_fd: c_int, in_fd: c_int, offset: *mut off_t, count: size_t) -> ssize_t {
    sendfile64(out_fd, in_fd, offset as *mut off64_t, count)
}

#[no_mangle]
pub unsafe extern "C" fn splice(fd_in: c_int, off_in: *mut off64_t, fd_out: c_int, off_out: *mut off64_t, len: size_t, flags: c_uint) -> ssize_t {
    let f = next!("splice", unsafe extern "C" fn(c_int, *mut off64_t, c_int, *mut off64_t, size_t, c_uint) -> ssize_t);
    if is_regular(fd_out) && counted("splice", len as i64) {
        libc::_exit(86);
    }
    f(fd_in, off_in, fd_out, off_out, len, flags)
}

#[no_mangle]
pub unsafe extern "C" fn ftruncate64(fd: c_int, len: off64_t) -> c_int {
    let f = next!("ftruncate64", unsafe extern "C" fn(c_int, off64_t) -> c_int);
    if is_regular(fd) {
        counted("ftruncate", len);
    }
    f(fd, len)
}

#[no_mangle]
pub unsafe extern "C" fn ftruncate(fd: c_int, len: off_t) -> c_int {
    ftruncate64(fd, len as off64_t)
}

#[no_mangle]
pub unsafe extern "C" fn open64(path: *const c_char, flags: c_int, mode: mode_t) -> c_int {
    let f = next!("open64", unsafe extern "C" fn(*const c_char, c_int, mode_t) -> c_int);
    if changes(flags) {
        counted("open", flags as i64);
    }
    f(path, flags, mode)
}

#[no_mangle]
pub unsafe extern "C" fn open(path: *const c_char, flags: c_int, mode: mode_t) -> c_int {
    let f = next!("open", unsafe extern "C" fn(*const c_char, c_int, mode_t) -> c_int);
    if changes(flags) {
        counted("open", flags as i64);
    }
    f(path, flags, mode)
}

#[no_mangle]
pub unsafe extern "C" fn openat64(dirfd: c_int, path: *const c_char, flags: c_int, mode: mode_t) -> c_int {
    let f = next!("openat64", unsafe extern "C" fn(c_int, *const c_char, c_int, mode_t) -> c_int);
    if changes(flags) {
        counted("openat", flags as i64);
    }
    f(dirfd, path, flags, mode)
}

#[no_mangle]
pub unsafe extern "C" fn openat(dirfd: c_int, path: *const c_char, flags: c_int, mode: mode_t) -> c_int {
    let f = next!("openat", unsafe extern "C" fn(c_int, *const c_char, c_int, mode_t) -> c_int);
    if changes(flags) {
        counted("openat", flags as i64);
    }
    f(dirfd, path, flags, mode)
}

#[no_mangle]
pub unsafe extern "C" fn rename(old: *const c_char, new: *const c_char) -> c_int {
    let f = next!("rename", unsafe extern "C" fn(*const c_char, *const c_char) -> c_int);
    counted("rename", 0);
    f(old, new)
}

#[no_mangle]
pub unsafe extern "C" fn renameat(od: c_int, old: *const c_char, nd: c_int, new: *const c_char) -> c_int {
    let f = next!("renameat", unsafe extern "C" fn(c_int, *const c_char, c_int, *const c_char) -> c_int);
    counted("renameat", 0);
    f(od, old, nd, new)
}

#[no_mangle]
pub unsafe extern "C" fn renameat2(od: c_int, old: *const c_char, nd: c_int, new: *const c_char, flags: c_uint) -> c_int {
    let f = next!("renameat2", unsafe extern "C" fn(c_int, *const c_char, c_int, *const c_char, c_uint) -> c_int);
    counted("renameat2", flags as i64);
    f(od, old, nd, new, flags)
}

#[no_mangle]
pub unsafe extern "C" fn link(old: *const c_char, new: *const c_char) -> c_int {
    let f = next!("link", unsafe extern "C" fn(*const c_char, *const c_char) -> c_int);
    counted("link", 0);
    f(old, new)
}

#[no_mangle]
pub unsafe extern "C" fn linkat(od: c_int, old: *const c_char, nd: c_int, new: *const c_char, flags: c_int) -> c_int {
    let f = next!("linkat", unsafe extern "C" fn(c_int, *const c_char, c_int, *const c_char, c_int) -> c_int);
    counted("linkat", 0);
    f(od, old, nd, new, flags)
}

#[no_mangle]
pub unsafe extern "C" fn unlink(path: *const c_char) -> c_int {
    let f = next!("unlink", unsafe extern "C" fn(*const c_char) -> c_int);
    counted("unlink", 0);
    f(path)
}

#[no_mangle]
pub unsafe extern "C" fn unlinkat(dirfd: c_int, path: *const c_char, flags: c_int) -> c_int {
    let f = next!("unlinkat", unsafe extern "C" fn(c_int, *const c_char, c_int) -> c_int);
    counted("unlinkat", flags as i64);
    f(dirfd, path, flags)
}
