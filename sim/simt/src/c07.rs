//! C07: concurrent readers of one container always get exactly the stored bytes.
//! Reader tasks, decoder jobs, the cluster cache and the lazy slots all run under the
//! simulator's scheduler; a protocol monitor checks the publication history afterwards.

use crate::exec::{self, Event, Plan};
use crate::sched::Strategy;
use crate::tcheck::{BodyReport, Prepared, Slot, TCheck};
use jubako::reader::{EntryTrait, MayMissPack, Range};
use jubako::Pack;
use serde_json::{json, Value};
use simcore::gen::{self, Comp, Logical, Model, Packaging, SchemaSpec, SrcKind, StoreKind};
use simcore::prng::Rng;
use simcore::Tier;
use std::io::Read;
use std::path::{Path, PathBuf};
use std::sync::{Arc, Mutex};

#[derive(Clone, Debug)]
pub enum Op {
    /// stream the whole content with seeded read sizes
    ReadWhole { content: usize, size_seed: u64 },
    Slice { content: usize, off: u64, len: usize },
    CutStream { content: usize, off: u64, len: u64 },
    Entry { index: usize, entry: u32 },
    PackCheck { pack: u16 },
    ContainerCheck,
}

pub struct Image {
    pub entry: PathBuf,
    pub model: Model,
}


/// Build a loose container inside a (nearly sequential) simulated execution.
pub fn build_image(hooks: &exec::THooks, logical: Logical, dir: &Path, knobs: &[(&'static str, u64)], seed: u64) -> Image {
    let out: Arc<Mutex<Option<Result<gen::Built, String>>>> = Arc::new(Mutex::new(None));
    let out2 = Arc::clone(&out);
    let dir2 = dir.to_path_buf();
    hooks.begin(knobs, false);
    let rep = exec::run_execution(
        Plan::Explore {
            seed,
            strategy: Strategy::Lowest,
        },
        move || {
            simcore::osrand::reseed(seed);
            let r = gen::build(&logical, &dir2, "img", &gen::BuildOpts::default()).map_err(|e| e.to_string());
            *out2.lock().unwrap() = Some(r);
        },
    );
    let _ = hooks.take();
    if rep.outcome != exec::Outcome::Completed {
        simcore::harness_error(&format!("image creation execution ended {:?}", rep.outcome));
    }
    let built = match out.lock().unwrap().take() {
        Some(Ok(b)) => b,
        Some(Err(e)) => simcore::harness_error(&format!("image creation failed: {e}")),
        None => simcore::harness_error("image creation produced nothing"),
    };
    Image {
        entry: built.entry,
        model: built.model,
    }
}

fn read_with_sizes(stream: &mut jubako::reader::ByteStream, total: usize, size_seed: u64) -> Result<Vec<u8>, String> {
    let mut rng = Rng::derive(size_seed, "read-sizes", 0);
    let mut out = Vec::with_capacity(total);
    let mut guard = 0;
    loop {
        let want = match rng.below(6) {
            0 => 1,
            1 => 7,
            2 => 64,
            3 => 4097,
            4 => rng.range(1, 300) as usize,
            _ => total + 10,
        };
        if rng.below(10) == 0 {
            // finish with read_to_end from wherever the cursor is
            let mut rest = Vec::new();
            match stream.read_to_end(&mut rest) {
                Ok(_) => {
                    out.extend_from_slice(&rest);
                    break;
                }
                Err(e) => return Err(format!("read_to_end error {:?}", e.kind())),
            }
        }
        let mut buf = vec![0u8; want];
        match stream.read(&mut buf) {
            Ok(0) => break,
            Ok(n) => {
                if n > want {
                    return Err(format!("read returned {n} for a buffer of {want}"));
                }
                out.extend_from_slice(&buf[..n]);
                if out.len() > total {
                    return Err(format!("stream delivered {} bytes for a content of {total}", out.len()));
                }
            }
            Err(e) => return Err(format!("read error {:?}", e.kind())),
        }
        guard += 1;
        if guard > total + 1000 {
            return Err("stream makes no progress".into());
        }
    }
    Ok(out)
}

pub fn expected_entry_values(m: &Model, e: usize) -> (Vec<u8>, (u16, u32)) {
    let em = &m.entries[e];
    let c = &m.contents[em.content];
    (em.key.clone(), (c.pack, c.content_id))
}

/// The region a content operation works on (None for the other operations).
fn fetch(container: &jubako::reader::Container, model: &Model, op: &Op) -> Option<Result<jubako::reader::ByteRegion, String>> {
    let content = match op {
        Op::ReadWhole { content, .. } | Op::Slice { content, .. } | Op::CutStream { content, .. } => *content,
        _ => return None,
    };
    let c = &model.contents[content];
    let addr = jubako::ContentAddress::new(c.pack.into(), c.content_id.into());
    Some(match container.get_bytes(addr) {
        Ok(Some(MayMissPack::FOUND(Some(r)))) => Ok(r),
        Ok(other) => Err(format!("get_bytes({content}) answered {:?}", other.map(|m| match m {
            MayMissPack::FOUND(o) => format!("FOUND({})", if o.is_some() { "Some" } else { "None" }),
            MayMissPack::MISSING(_) => "MISSING".to_string(),
        }))),
        Err(e) => Err(format!("get_bytes({content}) failed: {}", simcore::dump::err_class(&e))),
    })
}

/// `pre`: the region of a content operation when it was fetched earlier (views are owned values:
/// the container may be gone by now, `container` is None then).
fn run_op(container: Option<&jubako::reader::Container>, pre: Option<Result<jubako::reader::ByteRegion, String>>, model: &Model, op: &Op, who: usize) -> Option<String> {
    let pre = std::cell::RefCell::new(pre);
    let get = |content: usize| -> Result<jubako::reader::ByteRegion, String> {
        if let Some(r) = pre.borrow_mut().take() {
            return r;
        }
        let container = container.ok_or("harness: content operation without container or region")?;
        let c = &model.contents[content];
        let addr = jubako::ContentAddress::new(c.pack.into(), c.content_id.into());
        match container.get_bytes(addr) {
            Ok(Some(MayMissPack::FOUND(Some(r)))) => Ok(r),
            Ok(other) => Err(format!("get_bytes({content}) answered {:?}", other.map(|m| match m {
                MayMissPack::FOUND(o) => format!("FOUND({})", if o.is_some() { "Some" } else { "None" }),
                MayMissPack::MISSING(_) => "MISSING".to_string(),
            }))),
            Err(e) => Err(format!("get_bytes({content}) failed: {}", simcore::dump::err_class(&e))),
        }
    };
    let r: Result<(), String> = (|| match op {
        Op::ReadWhole { content, size_seed } => {
            let region = get(*content)?;
            let want = &model.contents[*content].bytes;
            if region.size().into_u64() != want.len() as u64 {
                return Err(format!("content {content}: size {} instead of {}", region.size().into_u64(), want.len()));
            }
            let mut stream = region.stream();
            let got = read_with_sizes(&mut stream, want.len(), *size_seed)?;
            // the stream is at its end: a fixed-size read that asks for more must fail, never
            // deliver bytes that belong to a neighbour
            let mut more = [0u8; 5];
            if stream.read_exact(&mut more).is_ok() {
                return Err(format!("content {content}: read_exact(5) at the end of the stream delivered {:?} instead of failing", more));
            }
            if got != **want {
                return Err(format!("content {content}: streamed bytes differ from the stored ones (got {} bytes, first diff at {:?})", got.len(),
                    got.iter().zip(want.iter()).position(|(a, b)| a != b)));
            }
            Ok(())
        }
        Op::Slice { content, off, len } => {
            let region = get(*content)?;
            let want = &model.contents[*content].bytes;
            let s = region
                .get_slice(jubako::Offset::from(*off), *len)
                .map_err(|e| format!("content {content}: get_slice failed: {}", simcore::dump::err_class(&e)))?;
            if s[..] != want[*off as usize..*off as usize + *len] {
                return Err(format!("content {content}: slice [{off}, +{len}) differs from the stored bytes"));
            }
            Ok(())
        }
        Op::CutStream { content, off, len } => {
            let region = get(*content)?;
            let want = &model.contents[*content].bytes;
            let cut = region.cut(jubako::Offset::from(*off), jubako::Size::from(*len));
            let mut got = vec![];
            let mut cs = cut.stream();
            if *len >= 3 {
                // a fixed-size record first, then one that is longer than what is left
                let mut head = vec![0u8; (*len / 2) as usize];
                cs.read_exact(&mut head).map_err(|e| format!("content {content}: cut stream read_exact error {:?}", e.kind()))?;
                got.extend_from_slice(&head);
                let left = *len as usize - head.len();
                let mut too_long = vec![0u8; left + 1];
                if cs.read_exact(&mut too_long).is_ok() {
                    return Err(format!("content {content}: cut [{off}, +{len}): read_exact({}) delivered although only {left} bytes were left", left + 1));
                }
                // (after a failed read_exact the position is unspecified: a fresh stream for the rest)
                cs = cut.stream();
                got.clear();
            }
            cs.read_to_end(&mut got).map_err(|e| format!("content {content}: cut stream read error {:?}", e.kind()))?;
            if got[..] != want[*off as usize..(*off + *len) as usize] {
                return Err(format!("content {content}: cut [{off}, +{len}) stream differs from the stored bytes"));
            }
            Ok(())
        }
        Op::Entry { index, entry } => {
            let container = container.ok_or("harness: entry operation without container")?;
            let (name, offset, _count) = &model.indexes[*index];
            let idx = container
                .get_index_for_name(name)
                .map_err(|e| format!("index {name}: {}", simcore::dump::err_class(&e)))?
                .ok_or(format!("index {name} not found"))?;
            let store = idx
                .get_store(container.get_entry_storage())
                .map_err(|e| format!("entry store: {}", simcore::dump::err_class(&e)))?;
            let builder = jubako::reader::builder::AnyBuilder::new(store, container.get_value_storage().as_ref())
                .map_err(|e| format!("builder: {}", simcore::dump::err_class(&e)))?;
            let e = idx
                .get_entry(&builder, jubako::EntryIdx::from(*entry))
                .map_err(|e| format!("get_entry: {}", simcore::dump::err_class(&e)))?
                .ok_or(format!("entry {entry} of {name} not found"))?;
            let (key, (pack, cid)) = expected_entry_values(model, (*offset + *entry) as usize);
            let k = e
                .get_value("key")
                .map_err(|e| format!("key: {}", simcore::dump::err_class(&e)))?
                .ok_or("no key property")?
                .as_vec()
                .map_err(|e| format!("key resolve: {}", simcore::dump::err_class(&e)))?;
            if k[..] != key[..] {
                return Err(format!("entry {entry} of {name}: key differs"));
            }
            let a = e
                .get_value("addr")
                .map_err(|e| format!("addr: {}", simcore::dump::err_class(&e)))?
                .ok_or("no addr property")?
                .as_content();
            if a.pack_id != jubako::PackId::from(pack) || a.content_id != jubako::ContentIdx::from(cid) {
                return Err(format!("entry {entry} of {name}: content address differs"));
            }
            Ok(())
        }
        Op::PackCheck { pack } => match container.ok_or("harness: pack check without container")?.get_pack(jubako::PackId::from(*pack)) {
            Ok(Some(MayMissPack::FOUND(p))) => match p.check() {
                Ok(true) => Ok(()),
                other => Err(format!("pack {pack} check: {:?}", other.map_err(|e| simcore::dump::err_class(&e)))),
            },
            Err(e) => Err(format!("get_pack({pack}) failed: {}", simcore::dump::err_class(&e))),
            _ => Err(format!("get_pack({pack}) did not answer FOUND")),
        },
        Op::ContainerCheck => match container.ok_or("harness: container check without container")?.check() {
            Ok(true) => Ok(()),
            other => Err(format!("container check: {:?}", other.map_err(|e| simcore::dump::err_class(&e)))),
        },
    })();
    r.err().map(|e| format!("reader {who}: {e}"))
}

pub fn gen_op(rng: &mut Rng, model: &Model, hot: &[usize]) -> Op {
    let pick_content = |rng: &mut Rng| -> usize {
        if !hot.is_empty() && rng.chance(1, 2) {
            *rng.pick(hot)
        } else {
            rng.usize_below(model.contents.len())
        }
    };
    match rng.below(12) {
        0..=4 => Op::ReadWhole {
            content: pick_content(rng),
            size_seed: rng.next_u64(),
        },
        5 | 6 => {
            let content = pick_content(rng);
            let len = model.contents[content].bytes.len() as u64;
            let off = rng.range(0, len);
            let l = rng.range(0, len - off);
            Op::Slice {
                content,
                off,
                len: l as usize,
            }
        }
        7 | 8 => {
            let content = pick_content(rng);
            let len = model.contents[content].bytes.len() as u64;
            let off = rng.range(0, len);
            let l = rng.range(0, len - off);
            Op::CutStream { content, off, len: l }
        }
        9 => {
            let index = rng.usize_below(model.indexes.len());
            let count = model.indexes[index].2;
            Op::Entry {
                index,
                entry: rng.below(count as u64) as u32,
            }
        }
        10 => Op::PackCheck {
            pack: rng.range(1, model.n_packs as u64) as u16,
        },
        _ => Op::ContainerCheck,
    }
}

/// Publication-protocol monitor over the recorded events of one execution.
pub fn protocol_monitor(events: &[Event]) -> Vec<String> {
    use std::collections::HashMap;
    let mut bad = vec![];
    let mut written: HashMap<u64, u64> = HashMap::new(); // decoder instance -> bytes really written
    let mut published: HashMap<u64, u64> = HashMap::new();
    let mut waiting: HashMap<(u16, u64), u64> = HashMap::new(); // (task, instance) -> end waited for
    let mut total: HashMap<u64, u64> = HashMap::new();
    for e in events {
        match e.site {
            "dec_create" => {
                total.insert(e.a, e.b);
            }
            "dec_written" => {
                let w = written.entry(e.a).or_insert(0);
                if e.b < *w {
                    bad.push(format!("decoder {}: written length went back {} -> {}", e.a, *w, e.b));
                }
                *w = e.b;
                if e.b > total.get(&e.a).copied().unwrap_or(u64::MAX) {
                    bad.push(format!("decoder {}: {} bytes written into a buffer of {}", e.a, e.b, total[&e.a]));
                }
            }
            "dec_publish" => {
                let p = published.entry(e.a).or_insert(0);
                if e.b < *p {
                    bad.push(format!("decoder {}: published length went back {} -> {}", e.a, *p, e.b));
                }
                *p = e.b;
                if e.b > written.get(&e.a).copied().unwrap_or(0) {
                    bad.push(format!("decoder {}: published {} bytes, only {} written", e.a, e.b, written.get(&e.a).copied().unwrap_or(0)));
                }
            }
            "dec_wait" => {
                waiting.insert((e.task, e.a), e.b);
            }
            "dec_slice" => {
                let w = written.get(&e.a).copied().unwrap_or(0);
                if e.b > w {
                    bad.push(format!("decoder {}: a reader sliced {} bytes while only {} were written", e.a, e.b, w));
                }
                if let Some(end) = waiting.remove(&(e.task, e.a)) {
                    if e.b < end {
                        bad.push(format!("decoder {}: wait for {} bytes returned with only {} readable", e.a, end, e.b));
                    }
                }
            }
            _ => {}
        }
    }
    bad
}

pub struct C07;

pub fn reader_logical(rng: &mut Rng, comps: &[Comp]) -> Logical {
    let comp = *rng.pick(comps);
    let n = rng.range(4, 24) as usize;
    let srcs = [SrcKind::Cursor];
    let mut contents = crate::c08::gen_contents(rng, n, 2048, &srcs, comp);
    let packs = rng.range(1, 2) as u16;
    // loose files (one FileSource per pack), everything concatenated in one file (all packs are
    // regions of one FileSource and share its lock), or BasicCreator's one-file container
    let packaging = *rng.pick(&[Packaging::Loose, Packaging::Concat, Packaging::Loose, Packaging::Concat, Packaging::BasicOne]);
    for (i, c) in contents.iter_mut().enumerate() {
        c.pack = if packaging == Packaging::BasicOne { 1 } else { 1 + (i as u16 % packs) };
    }
    Logical {
        comp,
        packaging,
        n_packs: if packaging == Packaging::BasicOne { 1 } else { packs },
        contents,
        schema: SchemaSpec {
            key_prefix: *rng.pick(&[0usize, 2]),
            store: *rng.pick(&[StoreKind::Plain, StoreKind::Indexed]),
            variants: false,
            key_pad: 0,
        },
        dedup: false,
        aux_seed: rng.next_u64(),
        opts: Default::default(),
    }
}

impl TCheck for C07 {
    fn id(&self) -> &'static str {
        "C07"
    }
    fn works(&self, tier: Tier) -> u64 {
        match tier {
            Tier::Quick => 320,
            Tier::Thorough => 6000,
        }
    }
    fn scheds(&self, tier: Tier) -> u64 {
        match tier {
            Tier::Quick => 48,
            Tier::Thorough => 160,
        }
    }
    fn prepare(&self, seed: u64, tier: Tier, work: u64, scratch: &Path) -> Prepared {
        let mut rng = Rng::derive(seed, "c07-work", work);
        let logical = reader_logical(&mut rng, &[Comp::Zstd(3), Comp::Lz4(3), Comp::Lzma(1), Comp::Zstd(3)]);
        // one work in eight holds a compressed cluster far larger than any codec's input buffer
        // (40..300 KiB of incompressible bytes, hint Yes): its decoder job fetches the stored bytes
        // in many reads, between which other readers load other clusters from the same file
        let big = work % 8 == 6;
        let mut logical = logical;
        if big {
            let len = rng.range(40 * 1024, 300 * 1024) as usize;
            let at = rng.usize_below(logical.contents.len() + 1);
            let pack = logical.contents.first().map(|c| c.pack).unwrap_or(1);
            logical.contents.insert(
                at,
                gen::ContentSpec {
                    bytes: Arc::new(gen::gen_bytes(&mut rng, 9999, len, gen::Flavor::Random)),
                    hint: gen::Hint::Yes,
                    src: SrcKind::Cursor,
                    pack,
                },
            );
        }
        // clusters at the scale of the library's own constants (1 MiB, 4 MiB, 16 MiB): one work in
        // eight has two compressed clusters of 1.1..1.6 MiB that readers first look at only partly
        // while the decompression pool has one or two slots; one work has a single compressible
        // content above 16 MiB
        let mib_pair = work % 8 == 2;
        let above_16mib = work == 5;
        // (thorough tier) one compressed content above 256 MiB, two schedules
        let above_256mib = work == 7;
        let _ = tier;
        if above_256mib {
            let pack = logical.contents.first().map(|c| c.pack).unwrap_or(1);
            let len = (260usize << 20) + rng.range(1, 1 << 20) as usize;
            logical.contents.insert(
                0,
                gen::ContentSpec {
                    bytes: Arc::new(gen::gen_bytes(&mut rng, 9980, len, gen::Flavor::Constant)),
                    hint: gen::Hint::Yes,
                    src: SrcKind::Cursor,
                    pack,
                },
            );
        }
        if mib_pair || above_16mib {
            let pack = logical.contents.first().map(|c| c.pack).unwrap_or(1);
            let lens: Vec<usize> = if above_16mib {
                vec![rng.range(17 << 20, 19 << 20) as usize]
            } else {
                vec![rng.range(1_150_000, 1_600_000) as usize, rng.range(1_150_000, 1_600_000) as usize]
            };
            for (k, len) in lens.into_iter().enumerate() {
                let at = rng.usize_below(logical.contents.len() + 1);
                logical.contents.insert(
                    at,
                    gen::ContentSpec {
                        bytes: Arc::new(gen::gen_bytes(&mut rng, 9990 + k, len, gen::Flavor::Text)),
                        hint: gen::Hint::Yes,
                        src: SrcKind::Cursor,
                        pack,
                    },
                );
            }
        }
        let create_knobs = vec![
            ("creator_workers", 2u64),
            ("cluster_max_blobs", rng.range(1, 6)),
            ("cluster_max_size", *rng.pick(&[512u64, 2048, 4096])),
        ];
        let dir = scratch.join(format!("w{work}"));
        std::fs::create_dir_all(&dir).unwrap();
        let hooks = crate::exec::current_hooks();
        let image = Arc::new(build_image(&hooks, logical.clone(), &dir, &create_knobs, simcore::prng::hash_label(seed, "c07-img", work)));
        let knobs = vec![
            ("decode_chunk", if above_256mib { 1 << 20 } else if mib_pair || above_16mib { 65536 } else if big { *rng.pick(&[4096u64, 65536]) } else { *rng.pick(&[1u64, 7, 64, 4096]) }),
            ("cluster_cache", if mib_pair { 40 } else { *rng.pick(&[1u64, 2, 3, 40]) }),
            ("decomp_pool_size", if mib_pair { *rng.pick(&[1u64, 2]) } else { *rng.pick(&[1u64, 2, 8]) }),
            ("stream_short_read_pm", *rng.pick(&[0u64, 0, 250])),
            ("stream_short_read_seed", rng.next_u64() >> 1),
        ];
        // one work in six reads from a disk with failing sectors: a read of the pack file fails
        // with EIO now and then (1.5 % of the reads). An operation may then answer with an error;
        // it may never deliver wrong bytes, panic, or leave anybody waiting
        let read_faults = work % 6 == 4;
        // one work in five: the readers keep only the regions and let go of the container first
        let outlive = work % 5 == 3;
        // one work in five: once the container and its packs are open, every file name of the
        // container is given to another file of the same length (a new edition renamed into
        // place while these readers have the old one open); the readers keep getting the bytes
        // of the files that were opened
        let replaced = work % 5 == 1 && !above_256mib;
        let originals: Arc<Vec<(PathBuf, Vec<u8>)>> = Arc::new(if replaced {
            std::fs::read_dir(&dir)
                .unwrap()
                .filter_map(|e| e.ok())
                .filter(|e| e.path().is_file())
                .map(|e| (e.path(), std::fs::read(e.path()).unwrap()))
                .collect()
        } else {
            vec![]
        });
        let mut knobs = knobs;
        if read_faults {
            knobs.push(("file_read_fail_pm", 15));
            // ... and now and then there is no memory for a decoder context when a cluster is
            // first decoded (the next attempt works again)
            knobs.push(("decoder_build_fail_pm", 300));
            knobs.push(("env_fault_seed", rng.next_u64() >> 1));
        }
        let readers = rng.range(2, 4) as usize;
        // contents several readers look at simultaneously
        let mut hot: Vec<usize> = (0..2).map(|_| rng.usize_below(image.model.contents.len())).collect();
        if big {
            // the big content is one of the two that several readers look at simultaneously
            if let Some(i) = image.model.contents.iter().position(|c| c.bytes.len() >= 40 * 1024) {
                hot[0] = i;
            }
        }
        let mib: Vec<usize> = image
            .model
            .contents
            .iter()
            .enumerate()
            .filter(|(_, c)| c.bytes.len() >= 1_000_000)
            .map(|(i, _)| i)
            .collect();
        if !mib.is_empty() {
            hot = vec![mib[0], *mib.last().unwrap()];
        }
        let ops: Vec<Vec<Op>> = (0..readers)
            .map(|_| {
                let n = rng.range(4, 12);
                (0..n).map(|_| gen_op(&mut rng, &image.model, &hot)).collect()
            })
            .collect();
        let mut ops = ops;
        if mib_pair {
            // every reader starts with a look at the head of one of the MiB-sized contents (the
            // decoder of that cluster then has a reader far behind it), then goes elsewhere
            for (r, o) in ops.iter_mut().enumerate() {
                o.insert(
                    0,
                    Op::Slice {
                        content: mib[r % mib.len()],
                        off: 0,
                        len: 100,
                    },
                );
            }
        }
        let desc = json!({"failing_reads": read_faults, "regions_outlive_the_container": outlive, "names_given_to_other_files_after_open": replaced, "image": gen::describe(&logical), "readers": readers, "big_compressed_cluster": big, "two_MiB_sized_compressed_clusters": mib_pair, "content_above_16_MiB": above_16mib, "content_above_256_MiB": above_256mib,
                          "ops": ops.iter().map(|o| o.iter().map(|x| format!("{x:?}")).collect::<Vec<_>>()).collect::<Vec<_>>(),
                          "hot_contents": hot});
        let ops = Arc::new(ops);
        let image2 = Arc::clone(&image);
        Prepared {
            desc,
            knobs,
            body: Arc::new(move |slot: &Slot| {
                let mut rep = BodyReport::default();
                for (p, bytes) in originals.iter() {
                    // (an earlier execution of this work left the other files under the names)
                    let tmp = p.with_extension("orig");
                    if let Err(e) = std::fs::write(&tmp, bytes).and_then(|_| std::fs::rename(&tmp, p)) {
                        simcore::harness_error(&format!("C07: cannot restore {}: {e}", p.display()));
                    }
                }
                let container = match jubako::reader::Container::new(&image2.entry) {
                    Ok(c) => Arc::new(c),
                    Err(e) => {
                        if !read_faults {
                            rep.complaints.push(format!("Container::new failed: {}", simcore::dump::err_class(&e)));
                        }
                        *slot.lock().unwrap() = rep;
                        return;
                    }
                };
                if replaced {
                    // every pack is located and opened first (a pack that is looked up after the
                    // replacement would rightly be the new file)
                    for p in image2.model.pack_ids() {
                        let _ = container.get_pack(jubako::PackId::from(p));
                    }
                    for (p, bytes) in originals.iter() {
                        let other: Vec<u8> = bytes.iter().map(|b| !b).collect();
                        let tmp = p.with_extension("new");
                        if let Err(e) = std::fs::write(&tmp, &other).and_then(|_| std::fs::rename(&tmp, p)) {
                            simcore::harness_error(&format!("C07: cannot replace {}: {e}", p.display()));
                        }
                    }
                    rep.notes.insert("fault:names-given-to-other-files-after-open".into(), originals.len() as u64);
                }
                let complaints: Arc<Mutex<Vec<String>>> = Arc::new(Mutex::new(vec![]));
                let order: Arc<Mutex<Vec<u32>>> = Arc::new(Mutex::new(vec![]));
                let mut handles = vec![];
                for (who, my_ops) in ops.iter().enumerate() {
                    let container = Arc::clone(&container);
                    let image = Arc::clone(&image2);
                    let my_ops = my_ops.clone();
                    let complaints = Arc::clone(&complaints);
                    let order = Arc::clone(&order);
                    handles.push(shuttle::thread::spawn(move || {
                        if outlive {
                            // views are owned values: every reader first asks for all it needs
                            // (and does what needs the container), lets go of the container, and
                            // reads afterwards; the last one to let go closes the container while
                            // the others are already reading
                            let mut held = vec![];
                            for op in &my_ops {
                                match fetch(&container, &image.model, op) {
                                    Some(r) => held.push((op, r)),
                                    None if replaced && matches!(op, Op::ContainerCheck) => {}
                                    None => {
                                        if let Some(c) = run_op(Some(&container), None, &image.model, op, who) {
                                            complaints.lock().unwrap().push(c);
                                        }
                                        order.lock().unwrap().push(who as u32);
                                    }
                                }
                            }
                            drop(container);
                            for (op, r) in held {
                                if let Some(c) = run_op(None, Some(r), &image.model, op, who) {
                                    complaints.lock().unwrap().push(format!("{c} (read after the container was let go)"));
                                }
                                order.lock().unwrap().push(who as u32);
                            }
                            return;
                        }
                        for op in &my_ops {
                            if replaced && matches!(op, Op::ContainerCheck) {
                                // Container::check locates the packs again, by name: it looks at
                                // the other files now, and what it says about them is not judged
                                continue;
                            }
                            if let Some(c) = run_op(Some(&container), None, &image.model, op, who) {
                                complaints.lock().unwrap().push(c);
                            }
                            order.lock().unwrap().push(who as u32);
                        }
                    }));
                }
                drop(container);
                for h in handles {
                    if h.join().is_err() {
                        complaints.lock().unwrap().push("a reader task panicked".into());
                    }
                }
                rep.complaints = complaints.lock().unwrap().clone();
                if read_faults {
                    // with failing reads an error answer is legitimate; wrong data never is
                    let wrong_data = |m: &String| {
                        ["differ", "instead of", "delivered", "no progress", "not found", "answered", "did not answer"].iter().any(|w| m.contains(w))
                    };
                    let n = rep.complaints.len();
                    rep.complaints.retain(wrong_data);
                    rep.notes.insert("operations_answered_with_an_error_under_read_faults".into(), (n - rep.complaints.len()) as u64);
                }
                rep.interleaving = order.lock().unwrap().clone();
                *slot.lock().unwrap() = rep;
            }),
            record_events: true,
            hard_fault: false,
            one_cpu: false,
            post: None,
            max_scheds: if above_256mib { Some(2) } else { None },
        }
    }
    fn history_oracle(&self, events: &[Event], _report: &BodyReport) -> Vec<String> {
        protocol_monitor(events)
    }
    fn rule(&self) -> String {
        "works = a seeded loose container (4..24 contents of 0..2 KiB, raw and compressed clusters mixed, 1..2 content packs, cluster limits shrunk so 3..12 clusters) and 2..4 reader tasks with 4..12 operations each (whole content via stream() with seeded read sizes, get_slice, cut+stream, entry lookup through Index/EntryStorage/ValueStorage, pack check, container check; half of the content operations aim at two 'hot' contents so readers collide on one cluster), knobs decode chunk {1,7,64,4096}, cluster cache {1,2,3,40}, pool slots {1,2,8}; each work runs under many seeded schedules of readers and decoder jobs; oracle: every returned byte range equals the model, publication-protocol monitor over the recorded events, no panic, no deadlock, step bound; non-trivial = a choice point where the running task was not continued; distinct = distinct (work, decision trace)".into()
    }
    fn real_vs_stub(&self) -> Value {
        json!({"real": ["reader::Container, ContentPack, Cluster, SeekableDecoder (raw buffer + published length), VecCache/OnceLock slots, LRU cluster cache, FileSource, zstd/lz4/xz2 decoders (FFI)", "files on tmpfs"],
               "modelled": ["Mutex / Condvar / RwLock of compression.rs, file.rs, content_pack, cluster.rs, directory_pack: shuttle models, every lock release and every verif::point is a scheduling point"],
               "stub": ["rayon decompression pool: one modelled thread per job behind a counting semaphore of knob(decomp_pool_size) slots"],
               "simulated": ["every scheduling decision (seeded)", "OS randomness (seeded)"]})
    }
    fn assumptions(&self) -> Vec<String> {
        vec![
            "memory errors are observed through their consequences (wrong bytes, out-of-range slice panic, protocol monitor); a use-after-free that happens not to corrupt what is read afterwards is invisible here (see DESIGN.md, C07 limits)".into(),
            "std::sync::Arc and OnceLock have no scheduling points of their own; verif::point sites separate the get/set steps of the lazy slots".into(),
        ]
    }
    fn required_probes(&self, _tier: Tier) -> Vec<&'static str> {
        vec!["dec_wait", "pool_saturated", "cluster_load", "veccache_fill", "pack_slot_fill"]
    }
}
