//! C01: every byte sequence handed to a content-pack creator reads back byte-identical at the
//! address insertion returned - whatever the stream behaviour of its source and however the
//! caller, the compression workers, the writer and the decoder jobs are scheduled.

use crate::c08::{create_and_read_back, gen_contents, Work};
use crate::tcheck::{BodyReport, Prepared, Slot, TCheck};
use serde_json::{json, Value};
use simcore::gen::{self, Comp, ContentSpec, Flavor, Hint, Logical, Packaging, SchemaSpec, SrcKind, StoreKind};
use simcore::prng::Rng;
use simcore::Tier;
use std::path::Path;
use std::sync::Arc;

pub struct C01;

const N_HEAVY: u64 = 7;

fn heavy(kind: u64, rng: &mut Rng) -> (Comp, Vec<ContentSpec>, bool, &'static str) {
    let mk = |bytes: Vec<u8>, hint: Hint, src: SrcKind| ContentSpec {
        bytes: Arc::new(bytes),
        hint,
        src,
        pack: 1,
    };
    match kind {
        // the 4095-blob split with the shipped limits, raw and compressed
        0 => (
            Comp::Zstd(1),
            (0..4100).map(|i| mk(vec![b'a' + (i % 26) as u8; 1 + i % 2], Hint::No, SrcKind::Cursor)).collect(),
            false,
            "4100 tiny raw contents (crosses 4095 blobs per cluster)",
        ),
        1 => (
            Comp::Lz4(1),
            (0..4100).map(|i| mk(vec![b'a' + (i % 26) as u8; 1 + i % 3], Hint::Yes, SrcKind::Cursor)).collect(),
            false,
            "4100 tiny compressed contents (crosses 4095 blobs per cluster)",
        ),
        // identical big contents through the deduplicating adder: streamed hashing above 4 MiB
        2 => {
            let big = gen::gen_bytes(rng, 0, 4 * 1024 * 1024 + 323, Flavor::Text);
            let small = gen::gen_bytes(rng, 1, 4 * 1024 * 1024 - 1, Flavor::Text);
            (
                Comp::Zstd(1),
                vec![
                    mk(big.clone(), Hint::Yes, SrcKind::File),
                    mk(small.clone(), Hint::No, SrcKind::Cursor),
                    mk(big.clone(), Hint::No, SrcKind::Cursor),
                    mk(small, Hint::Yes, SrcKind::Sim),
                    mk(big, Hint::Detect, SrcKind::FileRange),
                ],
                true,
                "dedup adder around the 4 MiB hashing switch",
            )
        }
        3 => {
            let big = gen::gen_bytes(rng, 0, 4 * 1024 * 1024 + 200, Flavor::Random);
            (
                Comp::Lz4(1),
                vec![mk(big.clone(), Hint::No, SrcKind::Cursor), mk(vec![7; 9], Hint::Yes, SrcKind::Cursor), mk(big, Hint::No, SrcKind::Cursor)],
                true,
                "dedup adder, big in-memory content stored raw",
            )
        }
        // a compressed cluster crossing the 4 MiB cluster size limit
        4 => (
            Comp::Zstd(1),
            (0..6).map(|i| mk(gen::gen_bytes(rng, i, 1024 * 1024 - 5 + i, Flavor::Text), Hint::Yes, SrcKind::Cursor)).collect(),
            false,
            "compressed clusters around the 4 MiB limit",
        ),
        // raw cluster of 16 MiB + 1: offset width 3 -> 4 bytes
        5 => (
            Comp::None,
            vec![
                mk(gen::gen_bytes(rng, 0, 8 * 1024 * 1024, Flavor::Constant), Hint::No, SrcKind::Cursor),
                mk(gen::gen_bytes(rng, 1, 8 * 1024 * 1024 - 1, Flavor::Constant), Hint::No, SrcKind::File),
                mk(vec![1, 2], Hint::No, SrcKind::Cursor),
                mk(vec![], Hint::No, SrcKind::Cursor),
            ],
            false,
            "raw cluster of 16 MiB + 1 (offset width 3 -> 4 bytes)",
        ),
        // offset width 2 -> 3 bytes (65535 / 65536) in raw and compressed clusters
        _ => (
            Comp::Lzma(0),
            vec![
                mk(gen::gen_bytes(rng, 0, 65535, Flavor::Random), Hint::No, SrcKind::Sim),
                mk(gen::gen_bytes(rng, 1, 1, Flavor::Constant), Hint::No, SrcKind::Cursor),
                mk(gen::gen_bytes(rng, 2, 65535, Flavor::Text), Hint::Yes, SrcKind::FileRange),
                mk(gen::gen_bytes(rng, 3, 1, Flavor::Constant), Hint::Yes, SrcKind::Cursor),
                mk(gen::gen_bytes(rng, 4, 255, Flavor::Random), Hint::Yes, SrcKind::Cursor),
            ],
            false,
            "clusters at the 65535 / 65536 offset-width boundary",
        ),
    }
}

impl TCheck for C01 {
    fn id(&self) -> &'static str {
        "C01"
    }
    fn works(&self, tier: Tier) -> u64 {
        match tier {
            Tier::Quick => 480 + N_HEAVY,
            Tier::Thorough => 8000 + N_HEAVY,
        }
    }
    fn scheds(&self, tier: Tier) -> u64 {
        match tier {
            Tier::Quick => 6,
            Tier::Thorough => 32,
        }
    }
    fn prepare(&self, seed: u64, _tier: Tier, work: u64, scratch: &Path) -> Prepared {
        let mut rng = Rng::derive(seed, "c01-work", work);
        let dir = scratch.join(format!("w{work}"));
        std::fs::create_dir_all(&dir).unwrap();
        if work < N_HEAVY {
            let (comp, contents, dedup, what) = heavy(work, &mut rng);
            let knobs = vec![("creator_workers", rng.range(1, 4)), ("decomp_pool_size", 2u64)];
            let w = Arc::new(Work {
                comp,
                contents,
                aux_seed: rng.next_u64(),
                path: dir.join("pack.jbkc"),
                scratch: dir.clone(),
                dedup,
                hard_err_call: None,
            });
            let w2 = Arc::clone(&w);
            return Prepared {
                desc: json!({"boundary_workload": what, "comp": comp.name(), "contents": w.contents.len(), "dedup": dedup, "limits": "shipped (4095 blobs / 4 MiB)"}),
                knobs,
                body: Arc::new(move |slot: &Slot| {
                    let mut rep = BodyReport::default();
                    create_and_read_back(&w2, &mut rep);
                    rep.notes.insert("boundary_workloads".into(), 1);
                    *slot.lock().unwrap() = rep;
                }),
                record_events: false,
                hard_fault: false,
                one_cpu: false,
                post: None,
            };
        }
        let comp = *rng.pick(&[
            Comp::None,
            Comp::Zstd(1),
            Comp::Zstd(19),
            Comp::Zstd(-7),
            Comp::Lz4(0),
            Comp::Lz4(12),
            Comp::Lzma(0),
            Comp::Lzma(6),
        ]);
        let n = match rng.below(5) {
            0 => 0,
            1 => 1,
            _ => rng.range(2, 80) as usize,
        };
        let srcs = [SrcKind::Cursor, SrcKind::File, SrcKind::FileRange, SrcKind::Sim, SrcKind::FilePeeked, SrcKind::FileRangeToEnd];
        let max_len = *rng.pick(&[40usize, 600, 5000, 70000]);
        let mut contents = gen_contents(&mut rng, n, max_len, &srcs, comp);
        let dedup = rng.chance(1, 3);
        if dedup {
            // the deduplicating adder hashes a small content from the reader's current position: a
            // partly consumed reader is outside what it supports (the plain adder re-positions it)
            for c in contents.iter_mut() {
                if c.src == SrcKind::FilePeeked {
                    c.src = SrcKind::File;
                }
            }
        }
        if dedup && contents.len() >= 2 {
            // duplicates (same bytes, possibly another hint and source kind)
            for _ in 0..rng.range(1, 4) {
                let from = rng.usize_below(contents.len());
                let mut d = contents[from].clone();
                d.src = *rng.pick(&srcs);
                if d.src == SrcKind::FilePeeked {
                    d.src = SrcKind::FileRangeToEnd;
                }
                d.hint = if d.src == SrcKind::FilePeeked {
                    *rng.pick(&[Hint::No, Hint::Detect])
                } else {
                    *rng.pick(&[Hint::Yes, Hint::No, Hint::Detect])
                };
                let at = rng.usize_below(contents.len() + 1);
                contents.insert(at, d);
            }
        }
        let shipped_limits = rng.chance(1, 3);
        let mut knobs = vec![
            ("creator_workers", rng.range(1, 15)),
            ("decode_chunk", *rng.pick(&[64u64, 4096])),
            ("decomp_pool_size", *rng.pick(&[1u64, 8])),
        ];
        if !shipped_limits {
            knobs.push(("cluster_max_blobs", rng.range(1, 9)));
            knobs.push(("cluster_max_size", *rng.pick(&[256u64, 4096, 65536])));
        }
        let basic = work % 4 == 3 && !dedup;
        let desc = json!({"comp": comp.name(), "contents": contents.iter().map(|c| format!("{}{}{}", c.bytes.len(), match c.hint {Hint::Yes=>"Y",Hint::No=>"N",Hint::Detect=>"D"}, match c.src {SrcKind::Cursor=>"c",SrcKind::File=>"f",SrcKind::FileRange=>"r",SrcKind::Sim=>"s",SrcKind::FilePeeked=>"p",SrcKind::FileRangeToEnd=>"e"})).collect::<Vec<_>>(),
                          "dedup": dedup, "packaging": if basic {"BasicCreator one-file"} else {"content pack file"}, "knobs": knobs.iter().map(|(k,v)| format!("{k}={v}")).collect::<Vec<_>>()});
        if basic {
            // every other BasicCreator work hands extra content packs to finalize(), with ids that
            // are not contiguous ({1, 2, 9} / {1, 5}): pack ids are the application's choice
            let mut contents = contents;
            let (n_packs, absent_ids) = match (work / 4) % 4 {
                1 => (9u16, 0b0_1111_1100u32),
                3 => (5, 0b0_1110),
                _ => (1, 0),
            };
            if n_packs > 1 {
                let ids: Vec<u16> = (1..=n_packs).filter(|p| absent_ids & (1 << (p - 1)) == 0).collect();
                for (i, c) in contents.iter_mut().enumerate() {
                    c.pack = ids[i % ids.len()];
                }
            }
            let logical = Arc::new(Logical {
                comp,
                packaging: Packaging::BasicOne,
                n_packs,
                contents,
                schema: SchemaSpec {
                    key_prefix: 2,
                    store: StoreKind::Plain,
                    variants: false,
                    key_pad: 0,
                },
                dedup: false,
                aux_seed: rng.next_u64(),
                opts: gen::LogicalOpts {
                    absent_ids,
                    ..Default::default()
                },
            });
            let dir2 = dir.clone();
            Prepared {
                desc,
                knobs,
                body: Arc::new(move |slot: &Slot| {
                    let mut rep = BodyReport::default();
                    let stats = Arc::new(gen::SimReaderStats::default());
                    let opts = gen::BuildOpts {
                        progress: Arc::new(()),
                        sim_cfg: gen::SimReaderCfg {
                            short_pm: 300,
                            intr_pm: 120,
                            err_at_call: None,
                        },
                        sim_stats: Arc::clone(&stats),
                    };
                    let _ = std::fs::remove_file(dir2.join("img.jbk"));
                    if logical.n_packs > 1 {
                        rep.notes.insert("basic_creator_extra_packs_sparse_ids".into(), 1);
                    }
                    match gen::build(&logical, &dir2, "img", &opts) {
                        Err(e) => rep.complaints.push(format!("BasicCreator creation failed: {e}")),
                        Ok(built) => {
                            let spec = simcore::dump::DumpSpec::for_model(&built.model);
                            let d = simcore::dump::dump_container(&built.entry, &spec);
                            let mism = simcore::dump::check_against_model(&d, &built.model, true);
                            // entry-level leaves belong to C02; C01 looks at contents, counts and checks
                            for m in mism {
                                if !m.starts_with("index[") {
                                    rep.complaints.push(m);
                                }
                            }
                        }
                    }
                    use std::sync::atomic::Ordering::Relaxed;
                    rep.notes.insert("fault:input-short-read".into(), stats.short.load(Relaxed));
                    rep.notes.insert("fault:input-interrupted".into(), stats.intr.load(Relaxed));
                    rep.notes.insert("basic_creator_one_file_workloads".into(), 1);
                    *slot.lock().unwrap() = rep;
                }),
                record_events: false,
                hard_fault: false,
                one_cpu: false,
                post: None,
            }
        } else {
            let w = Arc::new(Work {
                comp,
                contents,
                aux_seed: rng.next_u64(),
                path: dir.join("pack.jbkc"),
                scratch: dir.clone(),
                dedup,
                hard_err_call: None,
            });
            Prepared {
                desc,
                knobs,
                body: Arc::new(move |slot: &Slot| {
                    let mut rep = BodyReport::default();
                    create_and_read_back(&w, &mut rep);
                    if w.dedup {
                        rep.notes.insert("dedup_adder_workloads".into(), 1);
                    }
                    if w.contents.is_empty() {
                        rep.notes.insert("empty_pack_workloads".into(), 1);
                    }
                    *slot.lock().unwrap() = rep;
                }),
                record_events: false,
                hard_fault: false,
                one_cpu: false,
                post: None,
            }
        }
    }
    fn rule(&self) -> String {
        "works = seeded insertion sequences (0..80 contents; lengths 0..70000 biased to 0/1/255/256/4095/4096/65535/65536; constant / text / random / mixed-across-the-4KiB-detection-window bytes; hints Yes/No/Detect; sources Cursor, InputFile, InputFile::new_range, perturbing SimReader with short reads and Interrupted; all codecs x several levels; with and without the deduplicating adder incl. inserted duplicates; content-pack file or BasicCreator one-file packaging; shipped or shrunk cluster limits; 1..15 workers) plus 7 boundary workloads with the shipped limits (4095-blob split raw and compressed, dedup around the 4 MiB hashing switch, 4 MiB compressed cluster limit, 16 MiB+1 raw cluster, 65535/65536 widths); every work runs under several seeded schedules of caller, workers, writer and decoder jobs and is read back in the same execution (count, every address byte for byte, past-the-count addresses, check()); non-trivial = a choice point where the running task was not continued; distinct = distinct (work, decision trace)".into()
    }
    fn real_vs_stub(&self) -> Value {
        crate::c08::C08.real_vs_stub()
    }
    fn assumptions(&self) -> Vec<String> {
        vec![
            "BasicCreator two-file / no-concat packagings cannot be read back through Container::get_bytes on the pinned tree (C10, not claimed): C01 uses the pack-file and one-file packagings".into(),
            "schema space is not explored (C02 is not claimed): entry leaves of the one-file container are ignored here".into(),
        ]
    }
    fn required_probes(&self, _tier: Tier) -> Vec<&'static str> {
        vec!["boundary_workloads", "dedup_adder_workloads", "basic_creator_one_file_workloads", "empty_pack_workloads"]
    }
}
