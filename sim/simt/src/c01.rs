//! C01: every byte sequence handed to a content-pack creator reads back byte-identical at the
//! address insertion returned - whatever the stream behaviour of its source and however the
//! caller, the compression workers, the writer and the decoder jobs are scheduled.

use crate::c08::{create_and_read_back, gen_contents, Work};
use crate::tcheck::{BodyReport, Prepared, Slot, TCheck};
use serde_json::{json, Value};
use simcore::gen::{self, Comp, ContentSpec, Flavor, Hint, Logical, Packaging, SchemaSpec, SrcKind, StoreKind};
use simcore::prng::Rng;
use simcore::Tier;
use std::path::Path;
use std::sync::Arc;

pub struct C01;

const N_HEAVY: u64 = 11;

fn heavy(kind: u64, rng: &mut Rng) -> (Comp, Vec<ContentSpec>, bool, &'static str) {
    let mk = |bytes: Vec<u8>, hint: Hint, src: SrcKind| ContentSpec {
        bytes: Arc::new(bytes),
        hint,
        src,
        pack: 1,
    };
    match kind {
        // the 4095-blob split with the shipped limits, raw and compressed
        0 => (
            Comp::Zstd(1),
            (0..4100).map(|i| mk(vec![b'a' + (i % 26) as u8; 1 + i % 2], Hint::No, SrcKind::Cursor)).collect(),
            false,
            "4100 tiny raw contents (crosses 4095 blobs per cluster)",
        ),
        1 => (
            Comp::Lz4(1),
            (0..4100).map(|i| mk(vec![b'a' + (i % 26) as u8; 1 + i % 3], Hint::Yes, SrcKind::Cursor)).collect(),
            false,
            "4100 tiny compressed contents (crosses 4095 blobs per cluster)",
        ),
        // identical big contents through the deduplicating adder: streamed hashing above 4 MiB
        2 => {
            let big = gen::gen_bytes(rng, 0, 4 * 1024 * 1024 + 323, Flavor::Text);
            let small = gen::gen_bytes(rng, 1, 4 * 1024 * 1024 - 1, Flavor::Text);
            // near-duplicates: the same length and the same bytes but for the last one, the
            // first one, and one in the middle (whatever part of a big content the adder looks
            // at to recognise a duplicate, these are three more contents, not copies)
            let mut last_differs = big.clone();
            *last_differs.last_mut().unwrap() ^= 0x20;
            let mut first_differs = big.clone();
            first_differs[0] ^= 0x20;
            let mut middle_differs = big.clone();
            middle_differs[2 * 1024 * 1024 + 17] ^= 0x20;
            (
                Comp::Zstd(1),
                vec![
                    mk(big.clone(), Hint::Yes, SrcKind::File),
                    mk(small.clone(), Hint::No, SrcKind::Cursor),
                    mk(big.clone(), Hint::No, SrcKind::Cursor),
                    mk(last_differs, Hint::Yes, SrcKind::Cursor),
                    mk(small, Hint::Yes, SrcKind::Sim),
                    mk(first_differs, Hint::Yes, SrcKind::File),
                    mk(big, Hint::Detect, SrcKind::FileRange),
                    mk(middle_differs, Hint::No, SrcKind::Cursor),
                ],
                true,
                "dedup adder around the 4 MiB hashing switch",
            )
        }
        3 => {
            let big = gen::gen_bytes(rng, 0, 4 * 1024 * 1024 + 200, Flavor::Random);
            (
                Comp::Lz4(1),
                vec![mk(big.clone(), Hint::No, SrcKind::Cursor), mk(vec![7; 9], Hint::Yes, SrcKind::Cursor), mk(big, Hint::No, SrcKind::Cursor)],
                true,
                "dedup adder, big in-memory content stored raw",
            )
        }
        // a compressed cluster crossing the 4 MiB cluster size limit
        4 => (
            Comp::Zstd(1),
            (0..6).map(|i| mk(gen::gen_bytes(rng, i, 1024 * 1024 - 5 + i, Flavor::Text), Hint::Yes, SrcKind::Cursor)).collect(),
            false,
            "compressed clusters around the 4 MiB limit",
        ),
        // raw cluster of 16 MiB + 1: offset width 3 -> 4 bytes
        5 => (
            Comp::None,
            vec![
                mk(gen::gen_bytes(rng, 0, 8 * 1024 * 1024, Flavor::Constant), Hint::No, SrcKind::Cursor),
                mk(gen::gen_bytes(rng, 1, 8 * 1024 * 1024 - 1, Flavor::Constant), Hint::No, SrcKind::File),
                mk(vec![1, 2], Hint::No, SrcKind::Cursor),
                mk(vec![], Hint::No, SrcKind::Cursor),
            ],
            false,
            "raw cluster of 16 MiB + 1 (offset width 3 -> 4 bytes)",
        ),
        // more than 4096 clusters in one pack (the cluster index of a content address has 20 bits,
        // the blob index 12): every content in its own cluster (cluster limit knob = 1 blob)
        7 => (
            Comp::Lz4(1),
            (0..4200).map(|i| mk(vec![b'a' + (i % 26) as u8; 1 + i % 3], if i % 2 == 0 { Hint::No } else { Hint::Yes }, SrcKind::Cursor)).collect(),
            false,
            "4200 contents in 4200 clusters (cluster index above 12 bits)",
        ),
        // clusters of exactly 4095 blobs, compressed (the most the creator puts into one cluster; the
        // format would allow 4096, which only another writer can produce)
        8 => (
            Comp::Zstd(1),
            (0..8200).map(|i| mk(vec![b'A' + (i % 26) as u8; 2 + i % 5], Hint::Yes, SrcKind::Cursor)).collect(),
            false,
            "8200 compressed contents, two full clusters of 4095 blobs",
        ),
        // more than 65536 clusters in one pack (the format allows 2^20)
        9 => (
            Comp::None,
            (0..66_000).map(|i| mk(vec![b'a' + (i % 26) as u8; 1 + i % 2], Hint::No, SrcKind::Cursor)).collect(),
            false,
            "66000 contents in 66000 clusters",
        ),
        // one compressed content larger than 128 MiB (2^27: the largest match window a zstd
        // decoder accepts by default; such a content gets a cluster of its own, far above the
        // 4 MiB a compressed cluster normally holds), between two small ones
        10 => (
            Comp::Zstd(1),
            vec![
                mk(gen::gen_bytes(rng, 0, 300, Flavor::Text), Hint::Yes, SrcKind::Cursor),
                mk(gen::gen_bytes(rng, 1, (1 << 27) + 4097, Flavor::Text), Hint::Yes, SrcKind::File),
                mk(gen::gen_bytes(rng, 2, 70, Flavor::Text), Hint::Yes, SrcKind::Cursor),
            ],
            false,
            "one compressed content above 128 MiB",
        ),
        // offset width 2 -> 3 bytes (65535 / 65536) in raw and compressed clusters
        _ => (
            Comp::Lzma(0),
            vec![
                mk(gen::gen_bytes(rng, 0, 65535, Flavor::Random), Hint::No, SrcKind::Sim),
                mk(gen::gen_bytes(rng, 1, 1, Flavor::Constant), Hint::No, SrcKind::Cursor),
                mk(gen::gen_bytes(rng, 2, 65535, Flavor::Text), Hint::Yes, SrcKind::FileRange),
                mk(gen::gen_bytes(rng, 3, 1, Flavor::Constant), Hint::Yes, SrcKind::Cursor),
                mk(gen::gen_bytes(rng, 4, 255, Flavor::Random), Hint::Yes, SrcKind::Cursor),
            ],
            false,
            "clusters at the 65535 / 65536 offset-width boundary",
        ),
    }
}

/// One uncompressed cluster of more than 4 GiB: small, big (sparse file with markers), small,
/// small. Everything is read back through the addresses insertion returned.
fn four_gib_cluster(dir: &Path, rep: &mut BodyReport, with_huge_slice: bool) {
    use jubako::creator::ContentAdder;
    use jubako::Pack;
    use std::io::{Seek, SeekFrom, Write};
    const BIG: u64 = (1u64 << 32) + 1000;
    let marks: [u64; 6] = [0, 1 << 31, (1 << 32) - 4, (1 << 32) + 500, BIG - 8, 123_456_789];
    let mark = |k: usize| -> [u8; 8] {
        let mut m = *b"MARK0000";
        m[7] = b'0' + k as u8;
        m
    };
    let big_path = dir.join("big.bin");
    let pack_path = dir.join("big.jbkc");
    let _ = std::fs::remove_file(&pack_path);
    let r: Result<(), String> = (|| {
        let mut f = std::fs::File::create(&big_path).map_err(|e| e.to_string())?;
        f.set_len(BIG).map_err(|e| e.to_string())?;
        for (k, off) in marks.iter().enumerate() {
            f.seek(SeekFrom::Start(*off)).map_err(|e| e.to_string())?;
            f.write_all(&mark(k)).map_err(|e| e.to_string())?;
        }
        drop(f);
        let utf8 = jubako::Utf8PathBuf::from(pack_path.to_str().unwrap());
        let mut creator = jubako::creator::ContentPackCreator::new(
            &utf8,
            jubako::PackId::from(1),
            jubako::VendorId::from(gen::VENDOR),
            Default::default(),
            jubako::creator::Compression::None,
        )
        .map_err(|e| format!("ContentPackCreator::new: {e}"))?;
        let smalls: [&[u8]; 3] = [b"first small content", b"stored after the four GiB line", b"and the last one"];
        let mut ids = vec![];
        let a = creator.add_content(Box::new(std::io::Cursor::new(smalls[0].to_vec())), jubako::creator::CompHint::No).map_err(|e| format!("add small: {e}"))?;
        ids.push(a.content_id);
        let input = jubako::creator::InputFile::open(&big_path).map_err(|e| e.to_string())?;
        let a = creator.add_content(Box::new(input), jubako::creator::CompHint::No).map_err(|e| format!("add big: {e}"))?;
        ids.push(a.content_id);
        for s in &smalls[1..] {
            let a = creator.add_content(Box::new(std::io::Cursor::new(s.to_vec())), jubako::creator::CompHint::No).map_err(|e| format!("add small: {e}"))?;
            ids.push(a.content_id);
        }
        creator.finalize().map_err(|e| format!("finalize: {e}"))?;
        let reader: jubako::Reader = jubako::FileSource::open(&pack_path).map_err(|e| e.to_string())?.into();
        let pack = jubako::reader::ContentPack::new(reader).map_err(|e| format!("ContentPack::new: {}", simcore::dump::err_class(&e)))?;
        if pack.get_content_count().into_u64() != 4 {
            return Err(format!("pack reports {} contents, 4 were stored", pack.get_content_count().into_u64()));
        }
        let expect_small = [smalls[0], smalls[1], smalls[2]];
        for (k, id) in [ids[0], ids[2], ids[3]].into_iter().enumerate() {
            let region = pack.get_content(id).map_err(|e| format!("small content {k}: {}", simcore::dump::err_class(&e)))?.ok_or(format!("small content {k}: no such content"))?;
            let got = simcore::dump::read_region(&region)?;
            if got != expect_small[k] {
                return Err(format!("small content {k} reads {:?}", String::from_utf8_lossy(&got[..got.len().min(16)])));
            }
        }
        let region = pack.get_content(ids[1]).map_err(|e| format!("big content: {}", simcore::dump::err_class(&e)))?.ok_or("big content: no such content")?;
        if region.size().into_u64() != BIG {
            return Err(format!("big content has size {} instead of {BIG}", region.size().into_u64()));
        }
        for (k, off) in marks.iter().enumerate() {
            let s = region.get_slice(jubako::Offset::from(*off), 8).map_err(|e| format!("big content, slice at {off}: {}", simcore::dump::err_class(&e)))?;
            if s[..] != mark(k) {
                return Err(format!("big content: bytes at {off} are {:?}, not marker {k}", &s[..]));
            }
        }
        // one slice of more than 2 GiB (more than a single read(2) transfers on Linux): the
        // markers sit where they were stored, the sparse parts in between are zero
        if with_huge_slice {
            let n = (1usize << 31) + 8192;
            let s = region.get_slice(jubako::Offset::zero(), n).map_err(|e| format!("big content, slice of {n} bytes: {}", simcore::dump::err_class(&e)))?;
            if s.len() != n {
                return Err(format!("slice of {n} bytes has {} bytes", s.len()));
            }
            for (k, off) in [(0usize, 0usize), (1, 1 << 31), (5, 123_456_789)] {
                if s[off..off + 8] != mark(k) {
                    return Err(format!("slice of {n} bytes: bytes at {off} are {:?}, not marker {k}", &s[off..off + 8]));
                }
            }
            for off in [0x7fff_f000usize, 0x7fff_f000 - 4096, (1 << 31) + 4096, 1 << 30] {
                if s[off..off + 16].iter().any(|b| *b != 0) {
                    return Err(format!("slice of {n} bytes: bytes at {off} are {:?}, stored were zeros", &s[off..off + 16]));
                }
            }
        }
        match pack.get_content(jubako::ContentIdx::from(4u32)) {
            Ok(None) => {}
            _ => return Err("address 4 past the count does not answer 'no such content'".into()),
        }
        match pack.check() {
            Ok(true) => Ok(()),
            other => Err(format!("check() of the pack: {:?}", other.map_err(|e| simcore::dump::err_class(&e)))),
        }
    })();
    let _ = std::fs::remove_file(&big_path);
    let _ = std::fs::remove_file(&pack_path);
    if let Err(e) = r {
        rep.complaints.push(format!("cluster above 4 GiB: {e}"));
    }
}

impl TCheck for C01 {
    fn id(&self) -> &'static str {
        "C01"
    }
    fn works(&self, tier: Tier) -> u64 {
        match tier {
            Tier::Quick => 480 + N_HEAVY + 1,
            Tier::Thorough => 8000 + N_HEAVY + 1,
        }
    }
    fn scheds(&self, tier: Tier) -> u64 {
        match tier {
            Tier::Quick => 6,
            Tier::Thorough => 32,
        }
    }
    fn prepare(&self, seed: u64, tier: Tier, work: u64, scratch: &Path) -> Prepared {
        let mut rng = Rng::derive(seed, "c01-work", work);
        let dir = scratch.join(format!("w{work}"));
        std::fs::create_dir_all(&dir).unwrap();
        if work == N_HEAVY {
            // (both tiers; the slice of more than 2 GiB is asked for in the thorough tier only)
            let with_huge_slice = tier == Tier::Thorough;
            // a raw cluster that crosses 2^32 bytes (the 4-byte offset width boundary): a sparse
            // file of 4 GiB + 1000 bytes between small contents, one schedule
            let dir2 = dir.clone();
            return Prepared {
                desc: json!({"boundary_workload": "one raw cluster above 4 GiB (sparse file source with markers), contents stored after it", "comp": "none"}),
                knobs: vec![("creator_workers", 1u64), ("decomp_pool_size", 2u64)],
                body: Arc::new(move |slot: &Slot| {
                    let mut rep = BodyReport::default();
                    four_gib_cluster(&dir2, &mut rep, with_huge_slice);
                    rep.notes.insert("boundary_workloads".into(), 1);
                    rep.notes.insert("cluster_above_4GiB".into(), 1);
                    *slot.lock().unwrap() = rep;
                }),
                record_events: false,
                hard_fault: false,
                one_cpu: false,
                post: None,
                max_scheds: Some(1),
            };
        }
        if work < N_HEAVY {
            let (comp, contents, dedup, what) = heavy(work, &mut rng);
            let mut knobs = vec![("creator_workers", rng.range(1, 4)), ("decomp_pool_size", 2u64)];
            if work == 7 || work == 9 {
                knobs.push(("cluster_max_blobs", 1));
            }

            let w = Arc::new(Work {
                comp,
                contents,
                aux_seed: rng.next_u64(),
                path: dir.join("pack.jbkc"),
                scratch: dir.clone(),
                dedup,
                hard_err_call: None,
                abandon: false,
            });
            let w2 = Arc::clone(&w);
            return Prepared {
                desc: json!({"boundary_workload": what, "comp": comp.name(), "contents": w.contents.len(), "dedup": dedup, "limits": if work == 7 || work == 9 { "one blob per cluster" } else { "shipped (4095 blobs / 4 MiB)" }}),
                knobs,
                body: Arc::new(move |slot: &Slot| {
                    let mut rep = BodyReport::default();
                    create_and_read_back(&w2, &mut rep);
                    rep.notes.insert("boundary_workloads".into(), 1);
                    *slot.lock().unwrap() = rep;
                }),
                record_events: false,
                hard_fault: false,
                one_cpu: false,
                post: None,
                max_scheds: if work == 9 || work == 10 { Some(1) } else { None },
            };
        }
        let comp = *rng.pick(&[
            Comp::None,
            Comp::Zstd(1),
            Comp::Zstd(19),
            Comp::Zstd(-7),
            Comp::Lz4(0),
            Comp::Lz4(12),
            Comp::Lzma(0),
            Comp::Lzma(6),
        ]);
        let n = match rng.below(5) {
            0 => 0,
            1 => 1,
            _ => rng.range(2, 80) as usize,
        };
        let srcs = [SrcKind::Cursor, SrcKind::File, SrcKind::FileRange, SrcKind::Sim, SrcKind::FilePeeked, SrcKind::FileRangeToEnd, SrcKind::FileReplaced];
        let max_len = *rng.pick(&[40usize, 600, 5000, 70000]);
        let mut contents = gen_contents(&mut rng, n, max_len, &srcs, comp);
        let dedup = rng.chance(1, 3);
        if dedup {
            // the deduplicating adder hashes a small content from the reader's current position: a
            // partly consumed reader is outside what it supports (the plain adder re-positions it)
            for c in contents.iter_mut() {
                if c.src == SrcKind::FilePeeked {
                    c.src = SrcKind::File;
                }
            }
        }
        if dedup && contents.len() >= 2 {
            // duplicates (same bytes, possibly another hint and source kind)
            for _ in 0..rng.range(1, 4) {
                let from = rng.usize_below(contents.len());
                let mut d = contents[from].clone();
                d.src = *rng.pick(&srcs);
                if d.src == SrcKind::FilePeeked {
                    d.src = SrcKind::FileRangeToEnd;
                }
                d.hint = if d.src == SrcKind::FilePeeked {
                    *rng.pick(&[Hint::No, Hint::Detect])
                } else {
                    *rng.pick(&[Hint::Yes, Hint::No, Hint::Detect])
                };
                let at = rng.usize_below(contents.len() + 1);
                contents.insert(at, d);
            }
        }
        if dedup {
            // near-duplicates of small contents: the same length and the same bytes but for one
            // (the last, the first or a middle one), at lengths around the sizes a hash, a key or a
            // cache line may have (own sub-stream: the works themselves stay as drawn before)
            let mut nrng = Rng::derive(seed, "c01-near-duplicates", work);
            for _ in 0..nrng.below(6) {
                let len = *nrng.pick(&[1usize, 2, 8, 15, 16, 17, 31, 32, 33, 63, 64, 65, 127, 128, 129, 255, 256, 4095, 4096]);
                let base = gen::gen_bytes(&mut nrng, contents.len(), len, Flavor::Random);
                let mut near = base.clone();
                let at = match nrng.below(3) {
                    0 => len - 1,
                    1 => 0,
                    _ => len / 2,
                };
                near[at] ^= 1 << nrng.below(8);
                for bytes in [base.clone(), near, base] {
                    let c = ContentSpec {
                        bytes: Arc::new(bytes),
                        hint: *nrng.pick(&[Hint::Yes, Hint::No, Hint::Detect]),
                        src: SrcKind::Cursor,
                        pack: 1,
                    };
                    let at = nrng.usize_below(contents.len() + 1);
                    contents.insert(at, c);
                }
            }
        }
        if !dedup {
            crate::c08::share_archive(&mut rng, &mut contents);
        }
        let shipped_limits = rng.chance(1, 3);
        let mut knobs = vec![
            ("creator_workers", rng.range(1, 15)),
            ("decode_chunk", *rng.pick(&[64u64, 4096])),
            ("decomp_pool_size", *rng.pick(&[1u64, 8])),
        ];
        if !shipped_limits {
            knobs.push(("cluster_max_blobs", rng.range(1, 9)));
            knobs.push(("cluster_max_size", *rng.pick(&[256u64, 4096, 65536])));
        }
        // one work in sixteen runs as on a one-CPU host and leaves the worker count to the library
        let one_cpu = work % 16 == 5;
        if one_cpu {
            knobs.retain(|(k, _)| *k != "creator_workers");
        }
        let basic = work % 4 == 3 && !dedup;
        let desc = json!({"comp": comp.name(), "contents": contents.iter().map(|c| format!("{}{}{}", c.bytes.len(), match c.hint {Hint::Yes=>"Y",Hint::No=>"N",Hint::Detect=>"D"}, match c.src {SrcKind::Cursor=>"c",SrcKind::File=>"f",SrcKind::FileRange=>"r",SrcKind::Sim=>"s",SrcKind::FilePeeked=>"p",SrcKind::FileRangeToEnd=>"e",SrcKind::SharedArchive=>"a",SrcKind::FileReplaced=>"x"})).collect::<Vec<_>>(),
                          "dedup": dedup, "one_cpu_host_no_worker_knob": one_cpu, "packaging": if basic {"BasicCreator one-file"} else {"content pack file"}, "knobs": knobs.iter().map(|(k,v)| format!("{k}={v}")).collect::<Vec<_>>()});
        if basic {
            // every other BasicCreator work hands extra content packs to finalize(), with ids that
            // are not contiguous ({1, 2, 9} / {1, 5}): pack ids are the application's choice
            let mut contents = contents;
            let (n_packs, absent_ids) = match (work / 4) % 4 {
                1 => (9u16, 0b0_1111_1100u32),
                3 => (5, 0b0_1110),
                _ => (1, 0),
            };
            if n_packs > 1 {
                let ids: Vec<u16> = (1..=n_packs).filter(|p| absent_ids & (1 << (p - 1)) == 0).collect();
                for (i, c) in contents.iter_mut().enumerate() {
                    c.pack = ids[i % ids.len()];
                }
            }
            let logical = Arc::new(Logical {
                comp,
                packaging: Packaging::BasicOne,
                n_packs,
                contents,
                schema: SchemaSpec {
                    key_prefix: 2,
                    store: StoreKind::Plain,
                    variants: false,
                    key_pad: 0,
                },
                dedup: false,
                aux_seed: rng.next_u64(),
                opts: gen::LogicalOpts {
                    absent_ids,
                    ..Default::default()
                },
            });
            let dir2 = dir.clone();
            Prepared {
                desc,
                knobs,
                body: Arc::new(move |slot: &Slot| {
                    let mut rep = BodyReport::default();
                    let stats = Arc::new(gen::SimReaderStats::default());
                    let opts = gen::BuildOpts {
                        progress: Arc::new(()),
                        sim_cfg: gen::SimReaderCfg {
                            short_pm: 300,
                            intr_pm: 120,
                            err_at_call: None,
                        },
                        sim_stats: Arc::clone(&stats),
                    };
                    let _ = std::fs::remove_file(dir2.join("img.jbk"));
                    if logical.n_packs > 1 {
                        rep.notes.insert("basic_creator_extra_packs_sparse_ids".into(), 1);
                    }
                    match gen::build(&logical, &dir2, "img", &opts) {
                        Err(e) => rep.complaints.push(format!("BasicCreator creation failed: {e}")),
                        Ok(built) => {
                            let spec = simcore::dump::DumpSpec::for_model(&built.model);
                            let d = simcore::dump::dump_container(&built.entry, &spec);
                            let mism = simcore::dump::check_against_model(&d, &built.model, true);
                            // entry-level leaves belong to C02; C01 looks at contents, counts and checks
                            for m in mism {
                                if !m.starts_with("index[") {
                                    rep.complaints.push(m);
                                }
                            }
                        }
                    }
                    use std::sync::atomic::Ordering::Relaxed;
                    rep.notes.insert("fault:input-short-read".into(), stats.short.load(Relaxed));
                    rep.notes.insert("fault:input-interrupted".into(), stats.intr.load(Relaxed));
                    rep.notes.insert("basic_creator_one_file_workloads".into(), 1);
                    *slot.lock().unwrap() = rep;
                }),
                record_events: false,
                hard_fault: false,
                one_cpu,
                post: None,
                max_scheds: None,
            }
        } else {
            let w = Arc::new(Work {
                comp,
                contents,
                aux_seed: rng.next_u64(),
                path: dir.join("pack.jbkc"),
                scratch: dir.clone(),
                dedup,
                hard_err_call: None,
                abandon: false,
            });
            Prepared {
                desc,
                knobs,
                body: Arc::new(move |slot: &Slot| {
                    let mut rep = BodyReport::default();
                    create_and_read_back(&w, &mut rep);
                    if w.dedup {
                        rep.notes.insert("dedup_adder_workloads".into(), 1);
                    }
                    if w.contents.is_empty() {
                        rep.notes.insert("empty_pack_workloads".into(), 1);
                    }
                    *slot.lock().unwrap() = rep;
                }),
                record_events: false,
                hard_fault: false,
                one_cpu,
                post: None,
                max_scheds: None,
            }
        }
    }
    fn rule(&self) -> String {
        "works = seeded insertion sequences (0..80 contents; lengths 0..70000 biased to 0/1/255/256/4095/4096/65535/65536; constant / text / random / mixed-across-the-4KiB-detection-window bytes; hints Yes/No/Detect; sources Cursor, InputFile, InputFile::new_range, perturbing SimReader with short reads and Interrupted; all codecs x several levels; with and without the deduplicating adder incl. inserted duplicates; content-pack file or BasicCreator one-file packaging; shipped or shrunk cluster limits; 1..15 workers) plus 11 boundary workloads (one compressed content above 128 MiB, 4095-blob split raw and compressed, dedup around the 4 MiB hashing switch, 4 MiB compressed cluster limit, 16 MiB+1 raw cluster, 65535/65536 widths); every work runs under several seeded schedules of caller, workers, writer and decoder jobs and is read back in the same execution (count, every address byte for byte, past-the-count addresses, check()); non-trivial = a choice point where the running task was not continued; distinct = distinct (work, decision trace)".into()
    }
    fn real_vs_stub(&self) -> Value {
        crate::c08::C08.real_vs_stub()
    }
    fn assumptions(&self) -> Vec<String> {
        vec![
            "BasicCreator two-file / no-concat packagings cannot be read back through Container::get_bytes on the pinned tree (C10, not claimed): C01 uses the pack-file and one-file packagings".into(),
            "schema space is not explored (C02 is not claimed): entry leaves of the one-file container are ignored here".into(),
        ]
    }
    fn required_probes(&self, _tier: Tier) -> Vec<&'static str> {
        vec!["boundary_workloads", "dedup_adder_workloads", "basic_creator_one_file_workloads", "empty_pack_workloads"]
    }
}
