//! The simulator's own shuttle `Scheduler`: it draws from the PRNG only at choice points
//! (two or more runnable tasks), records exactly those decisions, and can replay them.

use shuttle::scheduler::{Schedule, Scheduler, Task, TaskId};
use simcore::prng::Rng;
use std::collections::HashMap;
use std::sync::{Arc, Mutex};

#[derive(Clone, Copy, Debug, PartialEq, Eq)]
pub enum Strategy {
    /// uniform choice among runnable tasks
    Random,
    /// keep running the current task with probability 3/4, else uniform (longer uninterrupted runs)
    Sticky,
    /// PCT: random priorities, `depth` priority change points
    Pct(u8),
    /// lowest runnable task id first (deterministic, nearly sequential)
    Lowest,
    /// a stalled task: sticky-random, but from a seeded choice point on one task (seeded which) is
    /// not given the processor for a seeded number of choice points (200 / 2000 / 20000) as long
    /// as anything else can run - a worker descheduled in the middle of its cluster while the
    /// others finish dozens of theirs
    Starve,
}

impl Strategy {
    pub fn name(self) -> String {
        match self {
            Strategy::Random => "random".into(),
            Strategy::Sticky => "sticky".into(),
            Strategy::Pct(d) => format!("pct{d}"),
            Strategy::Lowest => "lowest".into(),
            Strategy::Starve => "starve".into(),
        }
    }
}

/// `u16::MAX` in a replay trace means "no constraint here: keep the current task if it is
/// runnable, else the lowest id" (used by the minimiser).
pub const WILDCARD: u16 = u16::MAX;

#[derive(Default, Debug, Clone)]
pub struct SchedShared {
    /// chosen task id at every choice point
    pub trace: Vec<u16>,
    pub steps: u64,
    pub choice_points: u64,
    /// choice points where the chosen task differs from the one that was running
    pub switches: u64,
    pub diverged: Option<String>,
    pub max_tasks: usize,
}

pub struct SimScheduler {
    rng: Rng,
    strategy: Strategy,
    replay: Option<Vec<u16>>,
    replay_pos: usize,
    started: bool,
    shared: Arc<Mutex<SchedShared>>,
    prio: HashMap<usize, u64>,
    change_points: Vec<u64>,
    /// (Starve) choice point at which the victim is picked, for how many choice points, and who
    starve_at: u64,
    starve_len: u64,
    victim: Option<usize>,
}

impl SimScheduler {
    pub fn new(seed: u64, strategy: Strategy, shared: Arc<Mutex<SchedShared>>) -> Self {
        let mut rng = Rng::derive(seed, "schedule", 0);
        let mut change_points = vec![];
        if let Strategy::Pct(d) = strategy {
            for _ in 0..d {
                change_points.push(rng.below(3000));
            }
        }
        let (starve_at, starve_len) = if strategy == Strategy::Starve {
            (rng.below(400), *rng.pick(&[200u64, 2000, 20000]))
        } else {
            (0, 0)
        };
        Self {
            starve_at,
            starve_len,
            victim: None,
            rng,
            strategy,
            replay: None,
            replay_pos: 0,
            started: false,
            shared,
            prio: HashMap::new(),
            change_points,
        }
    }

    pub fn replay(trace: Vec<u16>, shared: Arc<Mutex<SchedShared>>) -> Self {
        Self {
            starve_at: 0,
            starve_len: 0,
            victim: None,
            rng: Rng::new(0),
            strategy: Strategy::Lowest,
            replay: Some(trace),
            replay_pos: 0,
            started: false,
            shared,
            prio: HashMap::new(),
            change_points: vec![],
        }
    }
}

impl Scheduler for SimScheduler {
    fn new_execution(&mut self) -> Option<Schedule> {
        if self.started {
            None
        } else {
            self.started = true;
            Some(Schedule::new(0))
        }
    }

    fn next_task(
        &mut self,
        runnable: &[&Task],
        current: Option<TaskId>,
        _is_yielding: bool,
    ) -> Option<TaskId> {
        let mut sh = self.shared.lock().unwrap();
        sh.steps += 1;
        let mut ids: Vec<usize> = runnable.iter().map(|t| usize::from(t.id())).collect();
        ids.sort_unstable();
        sh.max_tasks = sh.max_tasks.max(ids.last().copied().unwrap_or(0) + 1);
        if ids.len() == 1 {
            return Some(TaskId::from(ids[0]));
        }
        sh.choice_points += 1;
        let cur = current.map(usize::from);
        let keep_or_lowest = |ids: &[usize]| -> usize {
            match cur {
                Some(c) if ids.contains(&c) => c,
                _ => ids[0],
            }
        };
        let chosen = if let Some(trace) = &self.replay {
            let want = trace.get(self.replay_pos).copied();
            self.replay_pos += 1;
            match want {
                None | Some(WILDCARD) => keep_or_lowest(&ids),
                Some(w) => {
                    if ids.contains(&(w as usize)) {
                        w as usize
                    } else {
                        if sh.diverged.is_none() {
                            sh.diverged = Some(format!(
                                "choice point {}: recorded task {w} is not runnable (runnable: {ids:?})",
                                self.replay_pos - 1
                            ));
                        }
                        keep_or_lowest(&ids)
                    }
                }
            }
        } else {
            match self.strategy {
                Strategy::Lowest => ids[0],
                Strategy::Random => ids[self.rng.usize_below(ids.len())],
                Strategy::Sticky => match cur {
                    Some(c) if ids.contains(&c) && self.rng.below(4) != 0 => c,
                    _ => ids[self.rng.usize_below(ids.len())],
                },
                Strategy::Starve => {
                    let step = sh.choice_points;
                    if step >= self.starve_at && self.victim.is_none() {
                        self.victim = Some(ids[self.rng.usize_below(ids.len())]);
                    }
                    let cands: Vec<usize> = match self.victim {
                        Some(v) if step < self.starve_at + self.starve_len && ids.iter().any(|i| *i != v) => ids.iter().copied().filter(|i| *i != v).collect(),
                        _ => ids.clone(),
                    };
                    match cur {
                        Some(c) if cands.contains(&c) && self.rng.below(4) != 0 => c,
                        _ => cands[self.rng.usize_below(cands.len())],
                    }
                }
                Strategy::Pct(_) => {
                    for id in &ids {
                        if !self.prio.contains_key(id) {
                            let p = 1_000_000 + self.rng.below(1_000_000);
                            self.prio.insert(*id, p);
                        }
                    }
                    let step = sh.choice_points;
                    if self.change_points.contains(&step) {
                        // demote the task that would run now
                        let top = *ids.iter().max_by_key(|i| self.prio[*i]).unwrap();
                        let low = self.change_points.iter().position(|c| *c == step).unwrap() as u64;
                        self.prio.insert(top, low);
                    }
                    *ids.iter().max_by_key(|i| self.prio[*i]).unwrap()
                }
            }
        };
        if Some(chosen) != cur {
            sh.switches += 1;
        }
        sh.trace.push(chosen as u16);
        Some(TaskId::from(chosen))
    }

    fn next_u64(&mut self) -> u64 {
        self.rng.next_u64()
    }
}
