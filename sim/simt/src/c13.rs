//! C13: all views of a stored content (stream, slice, sub-cut, conversions) agree.
//! For contents still being decompressed the answer depends on how far the decoder job has
//! published when the call arrives - that part is a schedule; memory- and file-backed contents
//! run through the same operation generator and are counted separately.

use crate::c07::build_image;
use crate::tcheck::{BodyReport, Prepared, Slot, TCheck};
use jubako::reader::{ByteRegion, ByteSlice, ByteStream};
use serde_json::{json, Value};
use simcore::gen::{self, Comp, Logical, Packaging, SchemaSpec, SrcKind, StoreKind};
use simcore::prng::Rng;
use simcore::Tier;
use std::io::Read;
use std::path::Path;
use std::sync::{Arc, Mutex};

struct Ctx<'a> {
    rng: Rng,
    bad: &'a mut Vec<String>,
    what: String,
    ops: u64,
    chunk: usize,
}

fn check_stream(mut s: ByteStream, model: &[u8], cx: &mut Ctx, how: &str) {
    let len = model.len() as u64;
    if s.size() != len {
        cx.bad.push(format!("{} {how}: stream size() {} instead of {len}", cx.what, s.size()));
        return;
    }
    if s.offset() != 0 || s.size_left() != len {
        cx.bad.push(format!(
            "{} {how}: fresh stream has offset() {} size_left() {} (size {len})",
            cx.what,
            s.offset(),
            s.size_left()
        ));
        return;
    }
    let mut pos = 0usize;
    let mut guard = 0;
    loop {
        let remaining = model.len() - pos;
        let k = match cx.rng.below(8) {
            0 => 0,
            1 => 1,
            2 => cx.chunk.saturating_sub(1).max(1),
            3 => cx.chunk + 1,
            4 => remaining + 5,
            5 => remaining,
            _ => cx.rng.range(1, 200) as usize,
        };
        // now and then use the other entry points of `Read` from the current cursor position
        match cx.rng.below(12) {
            0 => {
                cx.ops += 1;
                let mut rest = Vec::new();
                match s.read_to_end(&mut rest) {
                    Ok(n) => {
                        if n != remaining || rest[..] != model[pos..] {
                            cx.bad.push(format!(
                                "{} {how}: read_to_end after reading {pos} bytes returned {n} bytes that are not content[{pos}..]",
                                cx.what
                            ));
                        } else if s.offset() != len || s.size_left() != 0 {
                            cx.bad.push(format!("{} {how}: after read_to_end offset()={} size_left()={}", cx.what, s.offset(), s.size_left()));
                        }
                    }
                    Err(e) => cx.bad.push(format!("{} {how}: read_to_end error {:?} at {pos}", cx.what, e.kind())),
                }
                return;
            }
            1 if remaining > 0 => {
                cx.ops += 1;
                let k = cx.rng.range(1, remaining as u64) as usize;
                let mut b = vec![0u8; k];
                match s.read_exact(&mut b) {
                    Ok(()) => {
                        if b[..] != model[pos..pos + k] {
                            cx.bad.push(format!("{} {how}: read_exact({k}) at {pos} differs from the content", cx.what));
                            return;
                        }
                        pos += k;
                        if s.offset() != pos as u64 || s.size_left() != (model.len() - pos) as u64 {
                            cx.bad.push(format!("{} {how}: after read_exact offset()={} size_left()={} (expected {pos})", cx.what, s.offset(), s.size_left()));
                            return;
                        }
                        continue;
                    }
                    Err(e) => {
                        cx.bad.push(format!("{} {how}: read_exact({k}) with {remaining} bytes left failed: {:?}", cx.what, e.kind()));
                        return;
                    }
                }
            }
            3 if remaining > 0 => {
                cx.ops += 1;
                // a vectored read into a small and a large buffer: together they may ask for more
                // than is left; what comes back is a prefix of what is left, never more
                let a = cx.rng.range(1, 16.min(remaining as u64)) as usize;
                let b = cx.rng.range(0, remaining as u64 + 40) as usize;
                let (mut ba, mut bb) = (vec![0x5Au8; a], vec![0x5Au8; b]);
                let r = {
                    let mut bufs = [std::io::IoSliceMut::new(&mut ba), std::io::IoSliceMut::new(&mut bb)];
                    s.read_vectored(&mut bufs)
                };
                match r {
                    Ok(n) => {
                        if n > remaining || n > a + b {
                            cx.bad.push(format!("{} {how}: read_vectored({a}+{b}) returned {n} with {remaining} bytes left", cx.what));
                            return;
                        }
                        let mut got = ba[..n.min(a)].to_vec();
                        if n > a {
                            got.extend_from_slice(&bb[..n - a]);
                        }
                        if got[..] != model[pos..pos + n] {
                            cx.bad.push(format!("{} {how}: read_vectored at {pos} (+{n}) differs from the content", cx.what));
                            return;
                        }
                        pos += n;
                        if s.offset() != pos as u64 || s.size_left() != (model.len() - pos) as u64 {
                            cx.bad.push(format!("{} {how}: after read_vectored offset()={} size_left()={} (expected {pos})", cx.what, s.offset(), s.size_left()));
                            return;
                        }
                        if n == 0 {
                            cx.bad.push(format!("{} {how}: read_vectored returned 0 with {remaining} bytes left", cx.what));
                            return;
                        }
                        continue;
                    }
                    Err(e) => {
                        cx.bad.push(format!("{} {how}: read_vectored error {:?} at {pos}", cx.what, e.kind()));
                        return;
                    }
                }
            }
            4 => {
                cx.ops += 1;
                // the rest as text: on valid UTF-8 the stream is consumed to its end and says so;
                // on anything else the call fails (and the walk of this stream ends)
                let mut text = String::new();
                let r = s.read_to_string(&mut text);
                match (std::str::from_utf8(&model[pos..]), r) {
                    (Ok(want), Ok(n)) => {
                        if n != remaining || text != want {
                            cx.bad.push(format!("{} {how}: read_to_string at {pos} returned {n} bytes, {remaining} were left (or other text)", cx.what));
                            return;
                        }
                        if s.offset() != model.len() as u64 || s.size_left() != 0 {
                            cx.bad.push(format!("{} {how}: after read_to_string offset()={} size_left()={} (content of {} bytes)", cx.what, s.offset(), s.size_left(), model.len()));
                            return;
                        }
                        let mut b2 = [0u8; 4];
                        match s.read(&mut b2) {
                            Ok(0) => {}
                            other => cx.bad.push(format!("{} {how}: read after read_to_string returned {other:?}", cx.what)),
                        }
                    }
                    (Err(_), Err(_)) => {}
                    (Ok(_), Err(e)) => cx.bad.push(format!("{} {how}: read_to_string at {pos} failed on valid UTF-8: {:?}", cx.what, e.kind())),
                    (Err(_), Ok(n)) => cx.bad.push(format!("{} {how}: read_to_string at {pos} accepted {n} bytes that are not UTF-8", cx.what)),
                }
                return;
            }
            2 => {
                cx.ops += 1;
                // asking for more than is left must fail, never deliver foreign bytes
                let mut b = vec![0u8; remaining + 1 + cx.rng.below(9) as usize];
                if s.read_exact(&mut b).is_ok() {
                    cx.bad.push(format!("{} {how}: read_exact({}) succeeded with only {remaining} bytes left", cx.what, b.len()));
                }
                return;
            }
            _ => {}
        }
        let mut buf = vec![0xA5u8; k];
        cx.ops += 1;
        match s.read(&mut buf) {
            Err(e) => {
                cx.bad.push(format!("{} {how}: read error {:?} at {pos}", cx.what, e.kind()));
                return;
            }
            Ok(n) => {
                if n > k || n > remaining {
                    cx.bad.push(format!("{} {how}: read({k}) returned {n} with {remaining} bytes left", cx.what));
                    return;
                }
                if buf[..n] != model[pos..pos + n] {
                    cx.bad.push(format!("{} {how}: bytes read at {pos} (+{n}) differ from the content", cx.what));
                    return;
                }
                if n == 0 && k > 0 && remaining > 0 {
                    cx.bad.push(format!("{} {how}: read({k}) returned 0 with {remaining} bytes left", cx.what));
                    return;
                }
                pos += n;
                if s.offset() != pos as u64 || s.size_left() != (model.len() - pos) as u64 || s.size() != len {
                    cx.bad.push(format!(
                        "{} {how}: after reading {pos} bytes offset()={} size_left()={} size()={}",
                        cx.what,
                        s.offset(),
                        s.size_left(),
                        s.size()
                    ));
                    return;
                }
                if pos == model.len() && (k == 0 || n == 0 || cx.rng.chance(1, 2)) {
                    // one more read at the end must return 0
                    let mut b2 = [0u8; 4];
                    match s.read(&mut b2) {
                        Ok(0) => {}
                        other => cx.bad.push(format!("{} {how}: read at end returned {other:?}", cx.what)),
                    }
                    return;
                }
            }
        }
        guard += 1;
        if guard > model.len() * 2 + 64 {
            cx.bad.push(format!("{} {how}: stream makes no progress", cx.what));
            return;
        }
    }
}

fn pick_range(rng: &mut Rng, len: usize) -> (usize, usize) {
    if rng.chance(1, 6) {
        return (0, len);
    }
    let off = match rng.below(4) {
        0 => 0,
        1 => len,
        _ => rng.range(0, len as u64) as usize,
    };
    let l = match rng.below(4) {
        0 => 0,
        1 => len - off,
        _ => rng.range(0, (len - off) as u64) as usize,
    };
    (off, l)
}

fn walk_slice(slice: &ByteSlice, model: &[u8], cx: &mut Ctx, depth: u32) {
    if slice.size().into_u64() != model.len() as u64 {
        cx.bad.push(format!("{}: slice size {} instead of {} (depth {depth})", cx.what, slice.size().into_u64(), model.len()));
        return;
    }
    let n_ops = cx.rng.range(1, 3);
    for _ in 0..n_ops {
        cx.ops += 1;
        match cx.rng.below(5) {
            0 => check_stream(slice.stream(), model, cx, "ByteSlice::stream"),
            1 => {
                let (off, l) = pick_range(&mut cx.rng, model.len());
                match slice.get_slice(jubako::Offset::from(off as u64), l) {
                    Ok(s) => {
                        if s[..] != model[off..off + l] {
                            cx.bad.push(format!("{}: ByteSlice::get_slice({off},{l}) differs (depth {depth})", cx.what));
                        }
                    }
                    Err(e) => cx.bad.push(format!("{}: ByteSlice::get_slice({off},{l}) failed: {}", cx.what, simcore::dump::err_class(&e))),
                }
            }
            2 | 3 if depth < 3 => {
                let (off, l) = pick_range(&mut cx.rng, model.len());
                let sub = slice.cut(jubako::Offset::from(off as u64), jubako::Size::from(l as u64));
                walk_slice(&sub, &model[off..off + l], cx, depth + 1);
            }
            _ => {
                let region = ByteRegion::from(slice.clone());
                if depth < 3 {
                    walk_region(&region, model, cx, depth + 1);
                } else {
                    check_stream(region.stream(), model, cx, "ByteRegion::from(slice).stream");
                }
            }
        }
        if !cx.bad.is_empty() {
            return;
        }
    }
}

fn walk_region(region: &ByteRegion, model: &[u8], cx: &mut Ctx, depth: u32) {
    if region.size().into_u64() != model.len() as u64 {
        cx.bad.push(format!("{}: region size {} instead of {} (depth {depth})", cx.what, region.size().into_u64(), model.len()));
        return;
    }
    let n_ops = cx.rng.range(2, 4);
    for _ in 0..n_ops {
        cx.ops += 1;
        match cx.rng.below(6) {
            0 => check_stream(region.stream(), model, cx, "ByteRegion::stream"),
            1 => check_stream(ByteStream::from(region.clone()), model, cx, "ByteStream::from(region)"),
            2 => {
                let (off, l) = pick_range(&mut cx.rng, model.len());
                match region.get_slice(jubako::Offset::from(off as u64), l) {
                    Ok(s) => {
                        if s[..] != model[off..off + l] {
                            cx.bad.push(format!("{}: ByteRegion::get_slice({off},{l}) differs (depth {depth})", cx.what));
                        }
                    }
                    Err(e) => cx.bad.push(format!("{}: ByteRegion::get_slice({off},{l}) failed: {}", cx.what, simcore::dump::err_class(&e))),
                }
            }
            3 | 4 => {
                let (off, l) = pick_range(&mut cx.rng, model.len());
                let sub = region.cut(jubako::Offset::from(off as u64), jubako::Size::from(l as u64));
                walk_slice(&sub, &model[off..off + l], cx, depth + 1);
            }
            _ => walk_slice(&region.as_slice(), model, cx, depth + 1),
        }
        if !cx.bad.is_empty() {
            return;
        }
    }
}

pub struct C13;

impl TCheck for C13 {
    fn id(&self) -> &'static str {
        "C13"
    }
    fn works(&self, tier: Tier) -> u64 {
        match tier {
            Tier::Quick => 360,
            Tier::Thorough => 6000,
        }
    }
    fn scheds(&self, tier: Tier) -> u64 {
        match tier {
            Tier::Quick => 32,
            Tier::Thorough => 128,
        }
    }
    fn prepare(&self, seed: u64, _tier: Tier, work: u64, scratch: &Path) -> Prepared {
        let mut rng = Rng::derive(seed, "c13-work", work);
        // source kinds: 0 = memory (Vec<u8>), 1 = file, 2 = a memory map of the file (any
        // `AsRef<[u8]>` value converts into a `Reader`); raw or decoded is decided by the hints
        let backing = rng.below(3);
        // one work in four: after the pack is opened its name is given to another file of the
        // same length (a new edition renamed into place while this reader has the old one open);
        // every view keeps showing the bytes of the file that was opened. File-backed then.
        let replaced = work % 4 == 2 || work % 20 == 9;
        let backing = if replaced { 1 } else { backing };
        // one work in four: the readers keep only the regions and close the pack before reading
        let outlive = work % 4 == 1;
        let comp = *rng.pick(&[Comp::None, Comp::Zstd(3), Comp::Lz4(3), Comp::Lzma(1), Comp::Zstd(3)]);
        // one work in ten has contents larger than 64 KiB (views and slices beyond 65535 bytes)
        let big = work % 10 == 9;
        let n = if big { rng.range(2, 4) as usize } else { rng.range(3, 14) as usize };
        let mut contents = crate::c08::gen_contents(&mut rng, n, if big { 200_000 } else { 3000 }, &[SrcKind::Cursor], comp);
        if big {
            // at least one content well above 64 KiB
            let last = contents.len() - 1;
            let len = rng.range(70_000, 200_000) as usize;
            contents[last].bytes = Arc::new(gen::gen_bytes(&mut rng, last, len, gen::Flavor::Text));
            if replaced {
                // and raw, above 128 KiB
                let len = rng.range(140_000, 300_000) as usize;
                contents[last].bytes = Arc::new(gen::gen_bytes(&mut rng, last, len, gen::Flavor::Text));
                contents[last].hint = gen::Hint::No;
            }
        }
        // one work in twenty has a content of several MiB (slices and reads above 1 MiB that are
        // not a multiple of it), stored raw or compressed
        let huge = work % 20 == 19;
        if huge {
            contents.truncate(2);
            let len = rng.range(2_200_000, 3_500_000) as usize;
            let idx = contents.len();
            contents.push(gen::ContentSpec {
                bytes: Arc::new(gen::gen_bytes(&mut rng, idx, len, gen::Flavor::Text)),
                hint: if work % 40 == 19 { gen::Hint::No } else { gen::Hint::Yes },
                src: SrcKind::Cursor,
                pack: 1,
            });
        }
        for c in contents.iter_mut() {
            c.pack = 1;
        }
        let logical = Logical {
            comp,
            packaging: Packaging::Loose,
            n_packs: 1,
            contents,
            schema: SchemaSpec {
                key_prefix: 0,
                store: StoreKind::Plain,
                variants: false,
                key_pad: 0,
            },
            dedup: false,
            aux_seed: rng.next_u64(),
            opts: Default::default(),
        };
        let create_knobs = vec![
            ("creator_workers", 1u64),
            ("cluster_max_blobs", rng.range(2, 6)),
            ("cluster_max_size", 1 << 20),
        ];
        let dir = scratch.join(format!("w{work}"));
        std::fs::create_dir_all(&dir).unwrap();
        let hooks = crate::exec::current_hooks();
        let image = build_image(&hooks, logical.clone(), &dir, &create_knobs, simcore::prng::hash_label(seed, "c13-img", work));
        let pack_path = dir.join("img.c1.jbkc");
        let pack_bytes = Arc::new(std::fs::read(&pack_path).unwrap_or_else(|e| simcore::harness_error(&format!("C13: {e}"))));
        // A predecessor (file-backed uncompressed packs, every other work): before the pack is
        // opened the same thread reads, through the same calls, another edition of it - the same
        // layout, every stored content byte inverted (raw content bytes are covered by the pack's
        // global hash only, so it opens) - and closes it. What the thread (or the process)
        // remembers of a source that is gone must not answer for the next one.
        let sibling_path = dir.join("sibling.jbkc");
        let mut predecessor = false;
        if backing == 1 && comp == Comp::None && !replaced && work % 2 == 0 {
            let mut sib = pack_bytes.as_ref().clone();
            let mut all_found = true;
            for cm in &image.model.contents {
                if cm.bytes.len() < 8 {
                    continue;
                }
                match pack_bytes.windows(cm.bytes.len()).position(|w| w == &cm.bytes[..]) {
                    Some(at) => {
                        for b in &mut sib[at..at + cm.bytes.len()] {
                            *b = !*b;
                        }
                    }
                    None => all_found = false,
                }
            }
            if all_found && std::fs::write(&sibling_path, &sib).is_ok() {
                predecessor = true;
            }
        }
        let chunk = if huge { 65536 } else if big { 4096 } else { *rng.pick(&[1u64, 7, 64]) };
        let knobs = vec![
            ("decode_chunk", chunk),
            ("cluster_cache", *rng.pick(&[2u64, 40])),
            ("decomp_pool_size", *rng.pick(&[1u64, 8])),
            ("stream_short_read_pm", *rng.pick(&[0u64, 0, 250])),
            ("stream_short_read_seed", rng.next_u64() >> 1),
        ];
        let readers = if comp == Comp::None { 1 } else { rng.range(1, 3) as usize };
        let model = Arc::new(image.model);
        // each reader looks at a few contents, preferring ones that are not first in their cluster
        let programs: Vec<Vec<(usize, u64)>> = (0..readers)
            .map(|_| {
                (0..rng.range(2, 5))
                    .map(|_| {
                        let c = if rng.chance(3, 4) && model.contents.len() > 1 {
                            rng.range(1, model.contents.len() as u64 - 1) as usize
                        } else {
                            0
                        };
                        (c, rng.next_u64())
                    })
                    .collect()
            })
            .collect();
        let desc = json!({"another_edition_read_and_closed_first_by_the_same_thread": predecessor, "name_given_to_another_file_after_open": replaced, "regions_outlive_the_pack": outlive, "several_MiB_content": huge, "image": gen::describe(&logical), "backing": (["memory", "file", "mmap"][backing as usize]),
                          "readers": readers, "programs": programs, "decode_chunk": chunk});
        let mut programs = programs;
        if huge || (big && replaced) {
            programs[0][0].0 = model.contents.len() - 1;
        }
        let programs = Arc::new(programs);
        Prepared {
            desc,
            knobs,
            body: Arc::new(move |slot: &Slot| {
                let mut rep = BodyReport::default();
                if replaced {
                    // (an earlier execution of this work left the other file under the name)
                    let tmp = pack_path.with_extension("orig");
                    if let Err(e) = std::fs::write(&tmp, pack_bytes.as_ref()).and_then(|_| std::fs::rename(&tmp, &pack_path)) {
                        simcore::harness_error(&format!("C13: cannot restore the pack file: {e}"));
                    }
                }
                if predecessor {
                    match jubako::FileSource::open(&sibling_path).map(jubako::Reader::from).map_err(|e| e.to_string()).and_then(|r| jubako::reader::ContentPack::new(r).map_err(|e| simcore::dump::err_class(&e))) {
                        Ok(sib) => {
                            // (every content in order, and last the one the first reader begins
                            // with: the last thing asked of the old source is the first thing asked
                            // of the new one)
                            let first = &model.contents[programs[0][0].0];
                            for cm in model.contents.iter().chain(std::iter::once(first)) {
                                if cm.bytes.len() < 8 {
                                    continue;
                                }
                                match sib.get_content(jubako::ContentIdx::from(cm.content_id)) {
                                    Ok(Some(region)) => {
                                        let inverted: Vec<u8> = cm.bytes.iter().map(|b| !b).collect();
                                        match region.get_slice(jubako::Offset::zero(), cm.bytes.len()) {
                                            Ok(s) if s[..] == inverted[..] => {}
                                            Ok(_) => rep.complaints.push(format!("the other edition: content {} does not read what that file holds", cm.content_id)),
                                            Err(e) => rep.complaints.push(format!("the other edition: slice failed: {}", simcore::dump::err_class(&e))),
                                        }
                                        let mut sink = vec![];
                                        let _ = std::io::Read::read_to_end(&mut region.stream(), &mut sink);
                                    }
                                    other => rep.complaints.push(format!("the other edition: get_content answered {:?}", other.map(|o| o.is_some()).map_err(|e| simcore::dump::err_class(&e)))),
                                }
                            }
                            rep.notes.insert("another_edition_read_and_closed_first".into(), 1);
                        }
                        Err(e) => rep.complaints.push(format!("the other edition does not open: {e}")),
                    }
                }
                let reader: jubako::Reader = if backing == 0 {
                    pack_bytes.as_ref().clone().into()
                } else if backing == 2 {
                    match std::fs::File::open(&pack_path).and_then(|f| unsafe { memmap2::Mmap::map(&f) }) {
                        Ok(m) => m.into(),
                        Err(e) => {
                            rep.complaints.push(format!("mmap: {e}"));
                            *slot.lock().unwrap() = rep;
                            return;
                        }
                    }
                } else {
                    match jubako::FileSource::open(&pack_path) {
                        Ok(f) => f.into(),
                        Err(e) => {
                            rep.complaints.push(format!("open: {e}"));
                            *slot.lock().unwrap() = rep;
                            return;
                        }
                    }
                };
                let pack = match jubako::reader::ContentPack::new(reader) {
                    Ok(p) => Arc::new(p),
                    Err(e) => {
                        rep.complaints.push(format!("ContentPack::new failed: {}", simcore::dump::err_class(&e)));
                        *slot.lock().unwrap() = rep;
                        return;
                    }
                };
                if replaced {
                    let other: Vec<u8> = pack_bytes.iter().map(|b| !b).collect();
                    let tmp = pack_path.with_extension("new");
                    if let Err(e) = std::fs::write(&tmp, &other).and_then(|_| std::fs::rename(&tmp, &pack_path)) {
                        simcore::harness_error(&format!("C13: cannot replace the pack file: {e}"));
                    }
                    rep.notes.insert("fault:name-given-to-another-file-after-open".into(), 1);
                }
                let complaints: Arc<Mutex<Vec<String>>> = Arc::new(Mutex::new(vec![]));
                let ops_total: Arc<Mutex<u64>> = Arc::new(Mutex::new(0));
                let order: Arc<Mutex<Vec<u32>>> = Arc::new(Mutex::new(vec![]));
                let mut handles = vec![];
                for (who, prog) in programs.iter().enumerate() {
                    let pack = Arc::clone(&pack);
                    let model = Arc::clone(&model);
                    let prog = prog.clone();
                    let complaints = Arc::clone(&complaints);
                    let ops_total = Arc::clone(&ops_total);
                    let order = Arc::clone(&order);
                    let job = move || {
                        let mut pack = Some(pack);
                        // views are owned values: with `outlive` every region is asked for first,
                        // then this reader lets go of the pack (the last one closes it)
                        let mut held: Vec<Option<ByteRegion>> = vec![];
                        if outlive {
                            for (content, _) in prog.iter() {
                                let cm = &model.contents[*content];
                                held.push(match pack.as_ref().unwrap().get_content(jubako::ContentIdx::from(cm.content_id)) {
                                    Ok(Some(r)) => Some(r),
                                    other => {
                                        complaints.lock().unwrap().push(format!(
                                            "reader {who}: get_content({content}) answered {:?}",
                                            other.map(|o| o.is_some()).map_err(|e| simcore::dump::err_class(&e))
                                        ));
                                        None
                                    }
                                });
                            }
                            pack = None;
                        }
                        for (k, (content, walk_seed)) in prog.into_iter().enumerate() {
                            let cm = &model.contents[content];
                            let mut bad = vec![];
                            let region = if outlive {
                                match held[k].take() {
                                    Some(r) => r,
                                    None => continue,
                                }
                            } else {
                                match pack.as_ref().unwrap().get_content(jubako::ContentIdx::from(cm.content_id)) {
                                    Ok(Some(r)) => r,
                                    other => {
                                        complaints.lock().unwrap().push(format!(
                                            "reader {who}: get_content({content}) answered {:?}",
                                            other.map(|o| o.is_some()).map_err(|e| simcore::dump::err_class(&e))
                                        ));
                                        continue;
                                    }
                                }
                            };
                            if replaced || predecessor {
                                // the whole content in one slice, whatever the seeded walk picks
                                match region.get_slice(jubako::Offset::zero(), cm.bytes.len()) {
                                    Ok(s) if s[..] == cm.bytes[..] => {}
                                    Ok(_) => bad.push(format!("reader {who} content {content} ({} bytes): whole-content slice differs from the stored bytes", cm.bytes.len())),
                                    Err(e) => bad.push(format!("reader {who} content {content}: whole-content slice failed: {}", simcore::dump::err_class(&e))),
                                }
                            }
                            let mut cx = Ctx {
                                rng: Rng::derive(walk_seed, "c13-walk", 0),
                                bad: &mut bad,
                                what: format!("reader {who} content {content} ({} bytes)", cm.bytes.len()),
                                ops: 0,
                                chunk: chunk as usize,
                            };
                            walk_region(&region, &cm.bytes, &mut cx, 0);
                            *ops_total.lock().unwrap() += cx.ops;
                            complaints.lock().unwrap().extend(bad);
                            order.lock().unwrap().push(who as u32);
                        }
                    };
                    if programs.len() == 1 {
                        job();
                    } else {
                        handles.push(shuttle::thread::spawn(job));
                    }
                }
                drop(pack);
                for h in handles {
                    if h.join().is_err() {
                        complaints.lock().unwrap().push("a reader task panicked".into());
                    }
                }
                rep.complaints = complaints.lock().unwrap().clone();
                rep.interleaving = order.lock().unwrap().clone();
                let kind = match (comp == Comp::None, backing) {
                    (true, 0) => "view_ops_on_memory_backed_content",
                    (true, 2) => "view_ops_on_mmap_backed_content",
                    (true, _) => "view_ops_on_file_backed_content",
                    (false, _) => "view_ops_on_pack_with_background_decoded_clusters",
                };
                rep.notes.insert(kind.into(), *ops_total.lock().unwrap());
                *slot.lock().unwrap() = rep;
            }),
            record_events: true,
            hard_fault: false,
            one_cpu: false,
            post: None,
            max_scheds: None,
        }
    }
    fn history_oracle(&self, events: &[crate::exec::Event], _report: &BodyReport) -> Vec<String> {
        crate::c07::protocol_monitor(events)
    }
    fn rule(&self) -> String {
        "works = a seeded content pack (3..14 contents of 0..3000 bytes, 2..6 blobs per cluster so most contents do not start at offset 0 of their source; none/zstd/lz4/lzma; backed by memory, by a file or by a memory map of the file) and 1..3 reader tasks, each running seeded view programs to nesting depth 3: region.stream() with seeded read sizes (0, 1, chunk-1, chunk+1, remaining, > remaining), ByteStream::from(region), get_slice, cut of cut of cut, as_slice, ByteRegion::from(slice), with size()/offset()/size_left() checked after every step against (content, begin, end[, cursor]) arithmetic on the model bytes; for compressed packs the readers race the decoder job under seeded schedules with decode chunk {1,7,64}; non-trivial = a choice point where the running task was not continued; distinct = distinct (work, decision trace). Memory- and file-backed raw contents involve no schedule; they are counted separately in probes".into()
    }
    fn real_vs_stub(&self) -> Value {
        json!({"real": ["ByteRegion / ByteSlice / ByteStream, Region arithmetic, Source impls for Vec<u8>, FileSource and SeekableDecoder, codecs"],
               "modelled": ["Mutex/Condvar of the decoder, FileSource mutex, cluster RwLock: shuttle models"],
               "stub": ["rayon decompression pool: modelled thread per job"],
               "simulated": ["scheduling decisions (seeded)"],
               "note": "jubako itself only mmaps metadata blocks >= 4 KiB; an mmap-backed *content* view is reached by handing ContentPack::new a Reader made from a memmap2::Mmap (any AsRef<[u8]> converts into a Reader)"})
    }
    fn required_probes(&self, _tier: Tier) -> Vec<&'static str> {
        vec![
            "view_ops_on_memory_backed_content",
            "view_ops_on_file_backed_content",
            "view_ops_on_mmap_backed_content",
            "view_ops_on_pack_with_background_decoded_clusters",
            "dec_wait",
        ]
    }
}
