//! One simulated execution: jubako's threads run as shuttle tasks under `SimScheduler`.

use crate::sched::{SchedShared, SimScheduler, Strategy};
use std::collections::BTreeMap;
use std::sync::{Arc, Mutex};

#[derive(Clone, Debug, PartialEq, Eq)]
pub enum Outcome {
    /// the body ran to completion (its own verdict is in the result slot)
    Completed,
    /// a task panicked (message, location)
    Panic(String),
    /// every unfinished task is blocked
    Deadlock(String),
    /// more steps than the bound: a task spins
    StepBound,
    /// replay could not follow the recorded trace
    Diverged(String),
}

impl Outcome {
    pub fn class(&self) -> String {
        match self {
            Outcome::Completed => "completed".into(),
            Outcome::Panic(m) => format!("panic:{}", norm(m)),
            Outcome::Deadlock(_) => "deadlock".into(),
            Outcome::StepBound => "step-bound".into(),
            Outcome::Diverged(_) => "diverged".into(),
        }
    }
}

pub fn norm(m: &str) -> String {
    let mut out = String::new();
    let mut last_digit = false;
    for c in m.chars() {
        if c.is_ascii_digit() {
            if !last_digit {
                out.push('N');
            }
            last_digit = true;
        } else {
            out.push(if c == '\n' { ' ' } else { c });
            last_digit = false;
        }
    }
    out.chars().take(110).collect()
}

// ------------------------------------------------------------------------------------------
// hooks: knobs + event log

#[derive(Clone, Debug, PartialEq, Eq)]
pub struct Event {
    pub task: u16,
    pub site: &'static str,
    pub a: u64,
    pub b: u64,
}

#[derive(Default)]
pub struct TState {
    pub knobs: BTreeMap<&'static str, u64>,
    pub events: Vec<Event>,
    pub counts: BTreeMap<&'static str, u64>,
    /// canonical small ids for decoder buffers (creation order; an address can be reused after a
    /// cluster was evicted, so identity is (address, generation))
    addr_ids: BTreeMap<u64, u64>,
    next_instance: u64,
    pub record_events: bool,
    /// seeded short reads on jubako's reader-side streams (per mille), and their PRNG
    pub short_read_pm: u64,
    pub short_rng: Option<simcore::prng::Rng>,
    /// environment faults (failing reads): PRNG (knob `env_fault_seed`)
    pub env_rng: Option<simcore::prng::Rng>,
    /// simulated time: PRNG deciding which timed waits time out (knob `timeout_fire_pm`)
    pub time_rng: Option<simcore::prng::Rng>,
    /// output I/O fault points (C09 T pass): consulted at every output operation of the creators
    pub io_handler: Option<Box<dyn FnMut(&verif_rt::io::IoOp) -> verif_rt::io::IoDecision + Send>>,
}

pub struct THooks {
    pub st: Mutex<TState>,
}

const ADDR_SITES: [&str; 5] = ["dec_create", "dec_slice", "dec_written", "dec_publish", "dec_wait"];

impl verif_rt::Hooks for THooks {
    fn point(&self, site: &'static str, a: u64, b: u64) {
        let mut st = self.st.lock().unwrap();
        *st.counts.entry(site).or_insert(0) += 1;
        if site == "dispatch_queue" {
            // a = clusters in flight, b = back-pressure limit
            let k = if a >= b { "backpressure_engaged" } else { "dispatch_without_wait" };
            *st.counts.entry(k).or_insert(0) += 1;
        }
        if st.record_events {
            let task = shuttle::current::get_current_task()
                .map(|t| usize::from(t) as u16)
                .unwrap_or(u16::MAX);
            let a = if site == "dec_create" {
                let n = st.next_instance;
                st.next_instance += 1;
                st.addr_ids.insert(a, n);
                n
            } else if ADDR_SITES.contains(&site) {
                st.addr_ids.get(&a).copied().unwrap_or(u64::MAX)
            } else {
                a
            };
            st.events.push(Event { task, site, a, b });
        }
    }
    fn knob(&self, name: &'static str, default: u64) -> u64 {
        self.st
            .lock()
            .unwrap()
            .knobs
            .get(name)
            .copied()
            .unwrap_or(default)
    }
    fn short_read(&self, n: usize) -> usize {
        let mut st = self.st.lock().unwrap();
        let pm = st.short_read_pm;
        if pm == 0 {
            return n;
        }
        let rng = st.short_rng.as_mut().unwrap();
        if rng.below(1000) < pm {
            let k = rng.range(1, n as u64 - 1) as usize;
            *st.counts.entry("fault:stream-short-read").or_insert(0) += 1;
            k
        } else {
            n
        }
    }
    fn timeout_fires(&self, site: &'static str) -> bool {
        let mut st = self.st.lock().unwrap();
        *st.counts.entry("timed_wait_reached").or_insert(0) += 1;
        let pm = st.knobs.get("timeout_fire_pm").copied().unwrap_or(0);
        if pm == 0 {
            return false;
        }
        let fire = st.time_rng.as_mut().map(|r| r.below(1000) < pm).unwrap_or(false);
        if fire {
            *st.counts.entry("fault:timeout-elapsed-first").or_insert(0) += 1;
            let _ = site;
        }
        fire
    }
    fn fault(&self, site: &'static str) -> bool {
        let mut st = self.st.lock().unwrap();
        let pm = match site {
            "file_read" => st.knobs.get("file_read_fail_pm").copied().unwrap_or(0),
            "decoder_build" => st.knobs.get("decoder_build_fail_pm").copied().unwrap_or(0),
            _ => 0,
        };
        if pm == 0 {
            return false;
        }
        let fire = st.env_rng.as_mut().map(|r| r.below(1000) < pm).unwrap_or(false);
        if fire {
            *st.counts.entry(if site == "file_read" { "fault:file-read-EIO" } else { "fault:decoder-context-ENOMEM" }).or_insert(0) += 1;
        }
        fire
    }
    fn io(&self, op: &verif_rt::io::IoOp) -> verif_rt::io::IoDecision {
        let mut st = self.st.lock().unwrap();
        match st.io_handler.as_mut() {
            Some(h) => h(op),
            None => verif_rt::io::IoDecision::Proceed,
        }
    }
}

static CURRENT: Mutex<Option<Arc<THooks>>> = Mutex::new(None);

pub fn install_hooks() -> Arc<THooks> {
    let h = Arc::new(THooks {
        st: Mutex::new(TState::default()),
    });
    verif_rt::install(h.clone());
    *CURRENT.lock().unwrap() = Some(h.clone());
    h
}

pub fn current_hooks() -> Arc<THooks> {
    CURRENT.lock().unwrap().clone().expect("hooks installed")
}

impl THooks {
    pub fn begin(&self, knobs: &[(&'static str, u64)], record_events: bool) {
        let mut st = self.st.lock().unwrap();
        st.knobs.clear();
        for (k, v) in knobs {
            st.knobs.insert(k, *v);
        }
        st.events.clear();
        st.counts.clear();
        st.addr_ids.clear();
        st.next_instance = 0;
        st.record_events = record_events;
        st.io_handler = None;
        st.env_rng = Some(simcore::prng::Rng::derive(st.knobs.get("env_fault_seed").copied().unwrap_or(0), "env-faults", 0));
        st.time_rng = Some(simcore::prng::Rng::derive(st.knobs.get("timeout_seed").copied().unwrap_or(0), "timed-waits", 0));
        // the pseudo-knob "stream_short_read_pm" switches reader-side short reads on
        st.short_read_pm = st.knobs.get("stream_short_read_pm").copied().unwrap_or(0);
        st.short_rng = Some(simcore::prng::Rng::derive(st.knobs.get("stream_short_read_seed").copied().unwrap_or(0), "short-reads", 0));
    }
    pub fn set_io_handler(&self, h: Option<Box<dyn FnMut(&verif_rt::io::IoOp) -> verif_rt::io::IoDecision + Send>>) {
        self.st.lock().unwrap().io_handler = h;
    }
    pub fn take(&self) -> (Vec<Event>, BTreeMap<&'static str, u64>) {
        let mut st = self.st.lock().unwrap();
        st.io_handler = None;
        (std::mem::take(&mut st.events), std::mem::take(&mut st.counts))
    }
}

// ------------------------------------------------------------------------------------------

thread_local! {
    static LAST_PANIC: std::cell::RefCell<Option<String>> = const { std::cell::RefCell::new(None) };
}

pub fn install_quiet_panic_hook() {
    std::panic::set_hook(Box::new(|info| {
        let loc = info
            .location()
            .map(|l| {
                let f = l.file();
                let f = f.strip_prefix("/repo/").unwrap_or(f);
                format!("{f}:{}", l.line())
            })
            .unwrap_or_else(|| "?".into());
        let msg = if let Some(s) = info.payload().downcast_ref::<&str>() {
            s.to_string()
        } else if let Some(s) = info.payload().downcast_ref::<String>() {
            s.clone()
        } else {
            "?".into()
        };
        LAST_PANIC.with(|p| {
            let mut p = p.borrow_mut();
            // keep the FIRST panic of an execution (later ones are consequences)
            if p.is_none() {
                *p = Some(format!("{msg} @ {loc}"));
            }
        });
        if let Ok(v) = std::env::var("VERIF_SHOW_PANICS") {
            let task = shuttle::current::get_current_task().map(usize::from);
            eprintln!("[panic] task={task:?} {msg} @ {loc}");
            if v == "2" {
                eprintln!("{}", std::backtrace::Backtrace::force_capture());
            }
        }
    }));
}

pub struct ExecReport {
    pub outcome: Outcome,
    pub sched: SchedShared,
}

pub enum Plan {
    Explore { seed: u64, strategy: Strategy },
    Replay { trace: Vec<u16> },
}

pub const STEP_BOUND: usize = 2_000_000;

/// Run `body` as the main task of one execution.
///
/// Every execution gets its own OS thread. Reason: when a task panics, a drop handler on its
/// coroutine stack may switch out in the middle of unwinding, and if the execution then ends
/// that coroutine is never resumed; `std::thread::panicking()` (a per-OS-thread counter) would
/// stay true for ever, shuttle would treat every later lock release on that thread as "we are
/// panicking" and every later execution in the process would fail spuriously.
pub fn run_execution<F>(plan: Plan, body: F) -> ExecReport
where
    F: Fn() + Send + Sync + 'static,
{
    let handle = std::thread::Builder::new()
        .name("execution".into())
        .stack_size(16 * 1024 * 1024)
        .spawn(move || run_execution_here(plan, body))
        .expect("spawn execution thread");
    match handle.join() {
        Ok(r) => r,
        Err(_) => simcore::harness_error("the execution thread itself panicked outside the simulated execution"),
    }
}

fn run_execution_here<F>(plan: Plan, body: F) -> ExecReport
where
    F: Fn() + Send + Sync + 'static,
{
    let shared = Arc::new(Mutex::new(SchedShared::default()));
    let sched = match plan {
        Plan::Explore { seed, strategy } => SimScheduler::new(seed, strategy, Arc::clone(&shared)),
        Plan::Replay { trace } => SimScheduler::replay(trace, Arc::clone(&shared)),
    };
    let mut config = shuttle::Config::new();
    config.stack_size = 2 * 1024 * 1024;
    config.failure_persistence = shuttle::FailurePersistence::None;
    config.max_steps = shuttle::MaxSteps::FailAfter(STEP_BOUND);
    config.silence_warnings = true;
    LAST_PANIC.with(|p| *p.borrow_mut() = None);
    let r = std::panic::catch_unwind(std::panic::AssertUnwindSafe(|| {
        let runner = shuttle::Runner::new(sched, config);
        runner.run(move || {
            verif_rt::pool::reset();
            body();
        });
    }));
    verif_rt::pool::clear();
    let sched = shared.lock().unwrap().clone();
    let outcome = match r {
        Ok(()) => match &sched.diverged {
            Some(d) => Outcome::Diverged(d.clone()),
            None => Outcome::Completed,
        },
        Err(payload) => {
            let msg = if let Some(s) = payload.downcast_ref::<&str>() {
                s.to_string()
            } else if let Some(s) = payload.downcast_ref::<String>() {
                s.clone()
            } else {
                "?".into()
            };
            let first = LAST_PANIC.with(|p| p.borrow().clone());
            if msg.starts_with("deadlock!") {
                Outcome::Deadlock(msg)
            } else if msg.starts_with("exceeded max_steps") {
                Outcome::StepBound
            } else if let Some(d) = &sched.diverged {
                Outcome::Diverged(d.clone())
            } else {
                let m = first.unwrap_or(msg);
                // a panic raised in the harness's own sources is a harness error, never a verdict
                if let Some(loc) = m.rsplit(" @ ").next() {
                    if loc.starts_with("simt/") || loc.starts_with("simcore/") || loc.starts_with("verif-rt/") {
                        simcore::harness_error(&format!("the harness itself panicked inside an execution: {m}"));
                    }
                }
                Outcome::Panic(m)
            }
        }
    };
    ExecReport { outcome, sched }
}

/// Shrink a failing decision trace while the same outcome class persists:
/// 1. shortest failing prefix (everything after it becomes "keep the running task"),
/// 2. inside the prefix, replace chunks of decisions by "keep the running task" (ddmin style).
/// Returns the minimised trace in replayable form: recorded decisions with `WILDCARD` entries,
/// cut after the last recorded decision (the scheduler continues with "keep the running task").
pub fn minimise_trace<F>(trace: &[u16], class: &str, run: &F) -> Vec<u16>
where
    F: Fn(Vec<u16>) -> (String, Vec<u16>),
{
    use crate::sched::WILDCARD;
    let mut budget = 400i32;
    let mut _best_concrete: Vec<u16> = trace.to_vec();
    let try_run = |cand: &Vec<u16>, budget: &mut i32| -> Option<Vec<u16>> {
        *budget -= 1;
        let (c, concrete) = run(cand.clone());
        if c == class {
            Some(concrete)
        } else {
            None
        }
    };
    // 1. shortest prefix: binary search on the number of recorded decisions that are kept
    let mut lo = 0usize; // prefix of length lo is not known to fail
    let mut hi = trace.len(); // the full trace fails
    while lo < hi && budget > 0 {
        let mid = (lo + hi) / 2;
        let cand: Vec<u16> = trace[..mid].to_vec();
        match try_run(&cand, &mut budget) {
            Some(concrete) => {
                hi = mid;
                _best_concrete = concrete;
            }
            None => lo = mid + 1,
        }
    }
    let mut cur: Vec<u16> = trace[..hi].to_vec();
    // 2. wildcard chunks inside the prefix
    let mut chunk = (cur.len() / 2).max(1);
    loop {
        let mut progressed = false;
        let mut i = 0;
        while i < cur.len() && budget > 0 {
            let end = (i + chunk).min(cur.len());
            if cur[i..end].iter().all(|d| *d == WILDCARD) {
                i = end;
                continue;
            }
            let mut cand = cur.clone();
            for d in &mut cand[i..end] {
                *d = WILDCARD;
            }
            if let Some(concrete) = try_run(&cand, &mut budget) {
                cur = cand;
                _best_concrete = concrete;
                progressed = true;
            }
            i = end;
        }
        if budget <= 0 || (chunk == 1 && !progressed) {
            break;
        }
        if chunk > 1 {
            chunk /= 2;
        }
    }
    while cur.last() == Some(&WILDCARD) {
        cur.pop();
    }
    cur
}
