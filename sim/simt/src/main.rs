//! T flavour ("threads"): jubako's threads, locks, condvars, channels and pools run as shuttle
//! tasks under a scheduler the simulator owns; one execution = (code, workload, decisions).

mod c01;
mod c06t;
mod c07;
mod c08;
mod c09t;
mod c13;
mod exec;
mod sched;
mod tcheck;

use simcore::Tier;

pub struct Args {
    pub cmd: String,
    pub tier: Tier,
    pub seed: u64,
    pub replay: Option<String>,
    pub worker: Option<(usize, usize)>,
    pub rest: Vec<String>,
}

fn parse_args() -> Args {
    let raw: Vec<String> = std::env::args().skip(1).collect();
    let mut a = Args {
        cmd: raw.first().cloned().unwrap_or_default(),
        tier: std::env::var("VERIF_TIER")
            .ok()
            .and_then(|t| Tier::parse(&t))
            .unwrap_or(Tier::Quick),
        seed: simcore::seed_from_env(),
        replay: None,
        worker: simcore::proc::parse_worker_arg(&raw),
        rest: vec![],
    };
    let mut i = 1;
    while i < raw.len() {
        match raw[i].as_str() {
            "--tier" => {
                i += 1;
                a.tier = Tier::parse(&raw[i]).unwrap_or_else(|| simcore::harness_error("bad tier"));
            }
            "--seed" => {
                i += 1;
                a.seed = raw[i].parse().unwrap_or_else(|_| simcore::harness_error("bad seed"));
            }
            "--replay" => {
                i += 1;
                a.replay = Some(raw[i].clone());
            }
            s if s.starts_with("--worker=") => {}
            s => a.rest.push(s.to_string()),
        }
        i += 1;
    }
    a
}

fn dispatch(check: &dyn tcheck::TCheck, args: &Args) -> ! {
    if let Some(f) = args.replay.clone() {
        tcheck::replay_main(check, args, &f)
    } else if let Some((w, n)) = args.worker {
        tcheck::worker_main(check, args, w, n)
    } else {
        tcheck::parent_main(check, args)
    }
}

fn main() {
    simcore::install_log_sink();
    let args = parse_args();
    match args.cmd.as_str() {
        "c08" => dispatch(&c08::C08, &args),
        "c07" => dispatch(&c07::C07, &args),
        "c01" => dispatch(&c01::C01, &args),
        "c06t" => dispatch(&c06t::C06T { c05: false }, &args),
        "c05t" => dispatch(&c06t::C06T { c05: true }, &args),
        "c09t" => dispatch(&c09t::C09T, &args),
        "c13" => dispatch(&c13::C13, &args),
        other => simcore::harness_error(&format!("unknown command {other:?}")),
    }
}
