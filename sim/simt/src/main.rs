fn main(){}
