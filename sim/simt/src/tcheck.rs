//! Generic driver of the T-flavour checks: works x schedules, worker fan-out, violation
//! minimisation, replay files, evidence.

use crate::exec::{self, Event, Outcome, Plan, THooks};
use crate::sched::Strategy;
use crate::Args;
use serde_json::{json, Value};
use simcore::report::{self, Evidence};
use simcore::{proc, Tier};
use std::collections::{BTreeMap, BTreeSet};
use std::sync::{Arc, Mutex};

/// What one execution reports besides the scheduler's outcome.
#[derive(Default, Clone, Debug)]
pub struct BodyReport {
    /// oracle complaints (empty = the property held in this execution)
    pub complaints: Vec<String>,
    /// a digest of the observable interleaving (e.g. cluster write order)
    pub interleaving: Vec<u32>,
    /// named counters for evidence
    pub notes: BTreeMap<String, u64>,
}

pub type Slot = Arc<Mutex<BodyReport>>;

pub struct Prepared {
    pub desc: Value,
    pub knobs: Vec<(&'static str, u64)>,
    /// the main task of an execution; it fills the slot
    pub body: Arc<dyn Fn(&Slot) + Send + Sync>,
    pub record_events: bool,
    /// the workload injects a hard (non-benign) fault: the operation may then fail in any way
    /// (error, panic, even a stall); the only thing that must not happen is a success that
    /// returns wrong data
    pub hard_fault: bool,
    /// run this work as on a one-CPU host (the execution thread is pinned to one CPU, so
    /// `available_parallelism()` answers 1) - for code that sizes its thread pools from it
    pub one_cpu: bool,
    /// judged after the execution ended, however it ended (completed, panic, deadlock): returns
    /// complaints about what the execution left behind (e.g. on the simulated disk)
    pub post: Option<Arc<dyn Fn(&Outcome, &BodyReport) -> (Vec<String>, BTreeMap<String, u64>) + Send + Sync>>,
    /// a very heavy work (hundreds of MiB, GiB) runs under at most this many schedules
    pub max_scheds: Option<u64>,
}

pub trait TCheck: Sync {
    fn id(&self) -> &'static str;
    fn works(&self, tier: Tier) -> u64;
    fn scheds(&self, tier: Tier) -> u64;
    fn prepare(&self, seed: u64, tier: Tier, work: u64, scratch: &std::path::Path) -> Prepared;
    /// checks over the recorded event history of one execution
    fn history_oracle(&self, _events: &[Event], _report: &BodyReport) -> Vec<String> {
        vec![]
    }
    fn rule(&self) -> String;
    fn real_vs_stub(&self) -> Value;
    fn assumptions(&self) -> Vec<String> {
        vec![]
    }
    /// (auxiliary passes) what this pass decides, for the summary embedded in the main evidence
    fn pass_decides(&self) -> String {
        "non-termination as a fact about a schedule: every task blocked (deadlock) or the 2M step bound (spinning)".into()
    }
    /// probes that must be non-zero in a thorough run (else harness error)
    fn required_probes(&self, _tier: Tier) -> Vec<&'static str> {
        vec![]
    }
}

pub fn asan_pass() -> bool {
    std::env::var("VERIF_ASAN_PASS").is_ok()
}

/// (works, schedules per work); the memory-checker pass runs a third of the works
pub fn budget(check: &dyn TCheck, tier: Tier) -> (u64, u64) {
    if asan_pass() {
        ((check.works(tier) / 3).max(8), (check.scheds(tier) / 2).max(4))
    } else {
        (check.works(tier), check.scheds(tier))
    }
}

pub fn strategy_for(k: u64) -> Strategy {
    match k % 6 {
        0 => Strategy::Random,
        1 => Strategy::Pct(1),
        2 => Strategy::Sticky,
        3 => Strategy::Pct(2),
        4 => Strategy::Starve,
        _ => Strategy::Pct(3),
    }
}

pub fn strategy_from_name(s: &str) -> Strategy {
    match s {
        "random" => Strategy::Random,
        "sticky" => Strategy::Sticky,
        "lowest" => Strategy::Lowest,
        "starve" => Strategy::Starve,
        "pct1" => Strategy::Pct(1),
        "pct2" => Strategy::Pct(2),
        "pct3" => Strategy::Pct(3),
        _ => simcore::harness_error("bad strategy"),
    }
}

pub struct OneRun {
    pub outcome: Outcome,
    pub report: BodyReport,
    pub events: Vec<Event>,
    pub counts: BTreeMap<&'static str, u64>,
    pub trace: Vec<u16>,
    pub steps: u64,
    pub choice_points: u64,
    pub switches: u64,
    pub history_complaints: Vec<String>,
    pub post_complaints: Vec<String>,
    pub hard_fault: bool,
}

impl OneRun {
    /// violation class of this run (None = property held)
    pub fn class(&self) -> Option<String> {
        if let Some(c) = self.post_complaints.first() {
            if !matches!(self.outcome, Outcome::Diverged(_)) {
                return Some(format!("post:{}", exec::norm(c)));
            }
        }
        match &self.outcome {
            Outcome::Completed => {
                if let Some(c) = self.report.complaints.first() {
                    Some(format!("oracle:{}", exec::norm(c)))
                } else {
                    self.history_complaints
                        .first()
                        .map(|c| format!("history:{}", exec::norm(c)))
                }
            }
            Outcome::Diverged(_) => None,
            _ if self.hard_fault => None,
            o => Some(o.class()),
        }
    }
}

/// Pin the calling thread (and the execution thread it is about to spawn) to the first CPU of
/// its current mask; returns the previous mask.
fn pin_to_one_cpu() -> Option<libc::cpu_set_t> {
    unsafe {
        let mut old: libc::cpu_set_t = std::mem::zeroed();
        if libc::sched_getaffinity(0, std::mem::size_of::<libc::cpu_set_t>(), &mut old) != 0 {
            return None;
        }
        let first = (0..libc::CPU_SETSIZE as usize).find(|i| libc::CPU_ISSET(*i, &old))?;
        let mut one: libc::cpu_set_t = std::mem::zeroed();
        libc::CPU_SET(first, &mut one);
        if libc::sched_setaffinity(0, std::mem::size_of::<libc::cpu_set_t>(), &one) != 0 {
            return None;
        }
        Some(old)
    }
}

pub fn run_once(check: &dyn TCheck, hooks: &THooks, prep: &Prepared, plan: Plan) -> OneRun {
    hooks.begin(&prep.knobs, prep.record_events);
    // pack uuids (and with them the order of the pack map) must not depend on what this process
    // ran before
    simcore::osrand::reseed(0x6a75_6261_6b6f);
    let slot: Slot = Arc::new(Mutex::new(BodyReport::default()));
    let body = Arc::clone(&prep.body);
    let slot2 = Arc::clone(&slot);
    let saved = if prep.one_cpu { pin_to_one_cpu() } else { None };
    let rep = exec::run_execution(plan, move || {
        body(&slot2);
    });
    if let Some(mask) = saved {
        unsafe {
            libc::sched_setaffinity(0, std::mem::size_of::<libc::cpu_set_t>(), &mask);
        }
    }
    let (events, counts) = hooks.take();
    let report = slot.lock().unwrap().clone();
    let history_complaints = if matches!(rep.outcome, Outcome::Completed) {
        check.history_oracle(&events, &report)
    } else {
        vec![]
    };
    let mut report = report;
    let post_complaints = match (&prep.post, &rep.outcome) {
        (_, Outcome::Diverged(_)) | (None, _) => vec![],
        (Some(p), o) => {
            let (bad, notes) = p(o, &report);
            for (k, v) in notes {
                *report.notes.entry(k).or_insert(0) += v;
            }
            bad
        }
    };
    OneRun {
        outcome: rep.outcome,
        report,
        events,
        counts,
        trace: rep.sched.trace.clone(),
        steps: rep.sched.steps,
        choice_points: rep.sched.choice_points,
        switches: rep.sched.switches,
        history_complaints,
        post_complaints,
        hard_fault: prep.hard_fault,
    }
}

fn hash_u32s(v: &[u32]) -> u64 {
    let mut s = String::new();
    for x in v {
        s.push_str(&x.to_string());
        s.push(',');
    }
    simcore::prng::hash_label(0, &s, 0)
}

fn hash_trace(v: &[u16]) -> u64 {
    let mut h: u64 = 0xcbf29ce484222325;
    for x in v {
        h ^= *x as u64;
        h = h.wrapping_mul(0x100000001b3);
    }
    h
}

/// `check.prepare` plus what every T check gets: simulated time. In one work out of three any
/// timed wait jubako performs (`recv_timeout`, `wait_timeout`, ...) that has nothing to return
/// yet times out with probability 1/4 - relative speeds are arbitrary, so a timeout may elapse
/// before any peer makes progress. (The pinned tree has no timed wait; the probe
/// `timed_wait_reached` says whether the code under test has.)
pub fn prepare_work(check: &dyn TCheck, seed: u64, tier: Tier, work: u64, scratch: &std::path::Path) -> Prepared {
    let mut prep = check.prepare(seed, tier, work, scratch);
    if work % 3 == 1 {
        prep.knobs.push(("timeout_fire_pm", 250));
        prep.knobs.push(("timeout_seed", simcore::prng::hash_label(seed, "timeouts", work)));
    }
    prep
}

pub fn worker_main(check: &dyn TCheck, args: &Args, w: usize, n: usize) -> ! {
    let hooks = exec::install_hooks();
    exec::install_quiet_panic_hook();
    let scratch = simcore::Scratch::new(&format!("{}-w{w}", check.id()));
    let (works, scheds) = budget(check, args.tier);
    let only_work: Option<u64> = std::env::var("VERIF_ONLY_WORK").ok().and_then(|s| s.parse().ok());
    let mut reported = 0;
    for work in 0..works {
        if work as usize % n != w {
            continue;
        }
        if let Some(o) = only_work {
            if o != work {
                continue;
            }
        }
        let prep = prepare_work(check, args.seed, args.tier, work, &scratch.path);
        println!("{}", json!({"t":"work","work":work,"desc":prep.desc,"knobs":prep.knobs.iter().map(|(k,v)| json!([k,v])).collect::<Vec<_>>()}));
        for s in 0..scheds.min(prep.max_scheds.unwrap_or(u64::MAX)) {
            let sched_seed = simcore::prng::hash_label(args.seed, &format!("{}-sched", check.id()), work * 100_000 + s);
            let strategy = strategy_for(work + s);
            // announced before running: if this process dies in the execution (memory error), the
            // parent knows which one it was
            println!("{}", json!({"t":"begin","work":work,"s":s,"strategy":strategy.name(),"sched_seed":sched_seed}));
            proc::flush_stdout();
            let run = run_once(check, &hooks, &prep, Plan::Explore { seed: sched_seed, strategy });
            let class = run.class();
            let mut run = run;
            if prep.hard_fault && !matches!(run.outcome, Outcome::Completed) {
                run.report.notes.insert(format!("hard_fault_ended_{}", run.outcome.class().split(':').next().unwrap_or("?")), 1);
            }
            let mut rec = json!({
                "t":"run","work":work,"s":s,"strategy":strategy.name(),"steps":run.steps,
                "choice_points":run.choice_points,"switches":run.switches,
                "trace_hash": format!("{:016x}", hash_trace(&run.trace)),
                "interleaving_hash": format!("{:016x}", hash_u32s(&run.report.interleaving)),
                "counts": run.counts, "notes": run.report.notes, "class": class,
            });
            if let Some(class) = &class {
                if reported < 3 {
                    reported += 1;
                    // minimise the decision trace, then record the concrete trace of the last failing run
                    let runner = |t: Vec<u16>| -> (String, Vec<u16>) {
                        let r = run_once(check, &hooks, &prep, Plan::Replay { trace: t });
                        (r.class().unwrap_or_default(), r.trace)
                    };
                    // first look for a simpler schedule of the same work that fails the same way:
                    // few priority changes (PCT depth 1, 2) or long uninterrupted runs, other seeds;
                    // the one with the fewest context switches is the starting point
                    let mut start_trace = run.trace.clone();
                    let mut fewest = run.switches;
                    for k in 0..150u64 {
                        let strat = [Strategy::Pct(1), Strategy::Sticky, Strategy::Pct(2)][(k % 3) as usize];
                        let r = run_once(check, &hooks, &prep, Plan::Explore { seed: simcore::prng::hash_label(sched_seed, "simpler", k), strategy: strat });
                        if r.class().as_deref() == Some(class.as_str()) && r.switches < fewest {
                            fewest = r.switches;
                            start_trace = r.trace.clone();
                        }
                    }
                    let min = exec::minimise_trace(&start_trace, class, &runner);
                    // confirm: replaying the minimised trace reproduces the class
                    let confirm = run_once(check, &hooks, &prep, Plan::Replay { trace: min.clone() });
                    let confirmed = confirm.class().as_deref() == Some(class.as_str());
                    let detail: Vec<String> = confirm
                        .report
                        .complaints
                        .iter()
                        .chain(confirm.history_complaints.iter())
                        .chain(confirm.post_complaints.iter())
                        .take(4)
                        .cloned()
                        .collect();
                    rec["violation"] = json!({
                        "class": class, "sched_seed": sched_seed,
                        "original_trace_len": run.trace.len(),
                        "trace": if confirmed { min.clone() } else { run.trace.clone() },
                        "switches_in_original": run.switches,
                        "minimised": confirmed, "detail": detail,
                        "outcome": format!("{:?}", if confirmed { &confirm.outcome } else { &run.outcome }),
                        "switches_in_minimised": confirm.switches,
                    });
                }
            }
            println!("{rec}");
        }
    }
    proc::flush_stdout();
    drop(scratch);
    std::process::exit(0)
}

pub fn parent_main(check: &dyn TCheck, args: &Args) -> ! {
    let id = check.id();
    let mut ev = Evidence::new(id, args.tier.name(), args.seed, "exploration");
    let known = report::load_known_findings();
    let n = proc::n_workers();
    let mut wargs: Vec<String> = vec![
        args.cmd.clone(),
        "--tier".into(),
        args.tier.name().into(),
        "--seed".into(),
        args.seed.to_string(),
    ];
    wargs.extend(args.rest.iter().cloned());
    if std::env::var("VERIF_WORKER_DEADLINE_S").is_err() {
        std::env::set_var(
            "VERIF_WORKER_DEADLINE_S",
            if args.tier == Tier::Quick { "1800" } else { "21600" },
        );
    }
    if std::env::var("VERIF_STALL_S").is_err() {
        // an execution takes milliseconds to a few seconds; five minutes of silence is a stall
        std::env::set_var("VERIF_STALL_S", "300");
    }
    let outs = proc::fan_out(n, &wargs);
    let mut works: BTreeMap<u64, Value> = BTreeMap::new();
    let mut runs: Vec<Value> = vec![];
    let mut deaths: Vec<(String, Value)> = vec![];
    for o in outs {
        let mut last_begin: Option<Value> = None;
        for line in &o.lines {
            let Ok(v) = serde_json::from_str::<Value>(line) else { continue };
            if v["t"] == "work" {
                works.insert(v["work"].as_u64().unwrap(), v);
            } else if v["t"] == "begin" {
                last_begin = Some(v);
            } else if v["t"] == "run" {
                last_begin = None;
                runs.push(v);
            }
        }
        if !o.ok {
            match last_begin {
                // the worker stopped making progress inside an execution: jubako blocks on
                // something that is not under the simulator's control (a real lock, a real wait)
                Some(b) if o.stalled => deaths.push(("stall (no progress for the whole watchdog period inside one execution; killed)".to_string(), b)),
                // the worker process itself died while running jubako code in an execution:
                // a memory error (or abort) is an observation, not a harness failure
                Some(b) if o.status.contains("signal") && !o.status.contains("signal: 9") => {
                    deaths.push((o.status.clone(), b))
                }
                _ => simcore::harness_error(&format!("worker {} failed: {}", o.index, o.status)),
            }
        }
    }
    runs.sort_by_key(|r| (r["work"].as_u64().unwrap_or(0), r["s"].as_u64().unwrap_or(0)));
    let run_digest = report::digest_records(runs.iter());
    let mut steps = 0u64;
    let mut choice_points = 0u64;
    let mut traces: BTreeSet<String> = BTreeSet::new();
    let mut interleavings: BTreeSet<String> = BTreeSet::new();
    let mut counts: BTreeMap<String, u64> = BTreeMap::new();
    let mut notes: BTreeMap<String, u64> = BTreeMap::new();
    let mut classes: BTreeMap<String, u64> = BTreeMap::new();
    let mut violations: Vec<(String, Value)> = vec![];
    let mut known_hits: BTreeMap<String, (u64, String)> = BTreeMap::new();
    for r in &runs {
        ev.evaluations += 1;
        steps += r["steps"].as_u64().unwrap_or(0);
        choice_points += r["choice_points"].as_u64().unwrap_or(0);
        let th = r["trace_hash"].as_str().unwrap_or("").to_string();
        if r["switches"].as_u64().unwrap_or(0) > 0 {
            // non-trivial: at least one choice point where an alternative was taken
            traces.insert(format!("{}:{}", r["work"], th));
        }
        interleavings.insert(format!("{}:{}", r["work"], r["interleaving_hash"].as_str().unwrap_or("")));
        for (k, v) in r["counts"].as_object().into_iter().flatten() {
            *counts.entry(k.clone()).or_insert(0) += v.as_u64().unwrap_or(0);
        }
        for (k, v) in r["notes"].as_object().into_iter().flatten() {
            *notes.entry(k.clone()).or_insert(0) += v.as_u64().unwrap_or(0);
        }
        if let Some(c) = r["class"].as_str() {
            *classes.entry(c.to_string()).or_insert(0) += 1;
            let sig = format!("{id}|{c}");
            match report::match_known(&known, id, &sig) {
                Some(k) => {
                    known_hits.entry(k.id.clone()).or_insert((0, k.what.clone())).0 += 1;
                }
                None => violations.push((sig, r.clone())),
            }
        }
        if ev.evaluations % 397 == 1 {
            ev.sample(json!({"work": works.get(&r["work"].as_u64().unwrap_or(0)).map(|w| w["desc"].clone()),
                             "schedule": {"strategy": r["strategy"], "steps": r["steps"], "choice_points": r["choice_points"], "switches": r["switches"], "trace_hash": r["trace_hash"]},
                             "notes": r["notes"]}));
        }
    }
    for t in &traces {
        ev.distinct.insert(simcore::prng::hash_label(0, t, 0));
    }
    for (kid, (count, what)) in &known_hits {
        println!("KNOWN-FINDING: property={id} {kid}: {what} ({count} executions this run)");
    }
    ev.rule = check.rule();
    for (k, v) in &counts {
        if let Some(f) = k.strip_prefix("fault:") {
            ev.fired(f, *v);
        } else {
            ev.probe(k, *v);
        }
    }
    for (k, v) in &notes {
        if k.starts_with("fault:") {
            ev.fired(&k[6..], *v);
        } else {
            ev.probe(k, *v);
        }
    }
    ev.fired("schedule-decision-with-alternative-taken", runs.iter().map(|r| r["switches"].as_u64().unwrap_or(0)).sum());
    ev.extra.insert("run_digest".into(), json!(run_digest));
    ev.extra.insert("works".into(), json!(works.len()));
    ev.extra.insert("schedules_per_work".into(), json!(budget(check, args.tier).1));
    ev.extra.insert("scheduler_steps".into(), json!(steps));
    ev.extra.insert("simulated_time".into(), json!(format!("{steps} scheduler steps (jubako has no clock or timer; time is counted in steps)")));
    ev.extra.insert("choice_points".into(), json!(choice_points));
    ev.extra.insert("distinct_decision_traces".into(), json!(traces.len()));
    ev.extra.insert("distinct_interleavings".into(), json!(interleavings.len()));
    ev.extra.insert("interleaving_measure".into(), json!("distinct (work, hash of the check's observable order) pairs, e.g. the order in which clusters reached the file / readers finished"));
    ev.extra.insert("outcome_classes".into(), json!(classes));
    ev.extra.insert("workers".into(), json!(n));
    ev.extra.insert("real_vs_stub".into(), check.real_vs_stub());
    ev.assumptions = check.assumptions();
    ev.assumptions.push("interleavings are sequentially consistent and switch at synchronisation operations, lock releases and verif::point sites only; weak-memory effects and finer-grained races are out of reach".into());
    for (status, b) in &deaths {
        let sig = format!("{id}|process-death:{status}");
        violations.push((sig.clone(), json!({"work": b["work"], "s": b["s"], "strategy": b["strategy"],
            "violation": {"class": format!("process-death:{status}"), "sched_seed": b["sched_seed"], "trace": Value::Null,
                          "minimised": false, "original_trace_len": 0, "detail": ["the worker process died inside this execution (memory error or abort); replay re-runs the same seeded schedule"],
                          "outcome": status}})));
    }
    ev.violations = violations.len() as u64;
    let mut seen = BTreeSet::new();
    for (sig, r) in &violations {
        if r.get("violation").is_none() || !seen.insert(sig.clone()) || seen.len() > 8 {
            continue;
        }
        let v = &r["violation"];
        let path = report::write_replay(
            id,
            args.seed,
            &format!("w{}-s{}", r["work"], r["s"]),
            json!({"property": id, "seed": args.seed, "tier": args.tier.name(), "work": r["work"],
                   "work_desc": works.get(&r["work"].as_u64().unwrap_or(0)).map(|w| w["desc"].clone()),
                   "strategy": r["strategy"], "sched_seed": v["sched_seed"], "trace": v["trace"],
                   "asan": asan_pass(), "engine_cmd": args.cmd,
                   "class": v["class"], "minimised": v["minimised"], "original_trace_len": v["original_trace_len"],
                   "detail": v["detail"], "outcome": v["outcome"]}),
        );
        println!("VIOLATION property={id} replay={}", path.display());
        eprintln!(
            "  {sig}  (decision trace {} -> {} entries of which {} forced, minimised={})",
            v["original_trace_len"],
            v["trace"].as_array().map(|a| a.len()).unwrap_or(0),
            v["trace"].as_array().map(|a| a.iter().filter(|x| x.as_u64() != Some(65535)).count()).unwrap_or(0),
            v["minimised"]
        );
    }
    if !violations.is_empty() && seen.is_empty() {
        // violations beyond the per-worker reporting cap: still a failure
        let (sig, r) = &violations[0];
        let path = report::write_replay(id, args.seed, &format!("w{}-s{}", r["work"], r["s"]), json!({"property": id, "seed": args.seed, "tier": args.tier.name(), "work": r["work"], "signature": sig, "note": "no trace recorded"}));
        println!("VIOLATION property={id} replay={}", path.display());
    }
    if args.tier == Tier::Thorough {
        for p in check.required_probes(args.tier) {
            if counts.get(p).copied().unwrap_or(0) + notes.get(p).copied().unwrap_or(0) == 0 {
                simcore::harness_error(&format!("probe '{p}' stayed at zero: the workload or the schedule mix does not reach it"));
            }
        }
    }
    if ev.distinct.len() < 2 {
        simcore::harness_error("fewer than 2 distinct non-trivial schedules");
    }
    if let Ok(path) = std::env::var("VERIF_PASS_SUMMARY") {
        // an auxiliary pass of another check's command (e.g. the T-flavour pass of C06): it
        // reports through a summary file and its exit status, the main pass writes the evidence
        let _ = std::fs::write(
            &path,
            json!({"executions": ev.evaluations, "works": works.len(), "scheduler_steps": steps,
                   "faults_fired": ev.faults_fired, "probes": ev.probes, "outcome_classes": classes,
                   "violations": violations.len(), "seed": args.seed, "tier": args.tier.name(), "rule": check.rule(),
                   "decides": check.pass_decides()})
            .to_string(),
        );
        println!("DIGEST {id}-T {run_digest}");
        println!("{id} T-flavour pass: {} executions, {} violations", ev.evaluations, violations.len());
        std::process::exit(if violations.is_empty() { 0 } else { 1 })
    }
    if let Ok(path) = std::env::var("VERIF_ASAN_SUMMARY") {
        if asan_pass() {
            let _ = std::fs::write(
                &path,
                json!({"executions": ev.evaluations, "works": works.len(), "scheduler_steps": steps,
                       "violations": violations.len(), "seed": args.seed, "tier": args.tier.name(),
                       "tool": "AddressSanitizer (rustc -Zsanitizer=address), same simulated executions, detect_leaks=0"})
                .to_string(),
            );
        } else if let Ok(text) = std::fs::read_to_string(&path) {
            if let Ok(v) = serde_json::from_str::<Value>(&text) {
                ev.extra.insert("memory_checker_pass".into(), v);
            }
        }
    }
    // summaries of auxiliary passes run by the driver before this one: "key=path,key=path"
    if let Ok(list) = std::env::var("VERIF_EXTRA_SUMMARIES") {
        for item in list.split(',') {
            if let Some((k, path)) = item.split_once('=') {
                if let Ok(text) = std::fs::read_to_string(path) {
                    if let Ok(v) = serde_json::from_str::<Value>(&text) {
                        ev.extra.insert(k.to_string(), v);
                    }
                }
            }
        }
    }
    if asan_pass() {
        println!("{id} memory-checker pass: {} executions, {} violations", ev.evaluations, violations.len());
        std::process::exit(if violations.is_empty() { 0 } else { 1 })
    }
    ev.write().expect("write evidence");
    println!("DIGEST {id} {run_digest}");
    println!(
        "{id}: {} executions over {} works, {} steps, {} distinct decision traces, {} distinct interleavings, {} known-finding, {} new violations, {:.1}s",
        ev.evaluations,
        works.len(),
        steps,
        traces.len(),
        interleavings.len(),
        known_hits.values().map(|v| v.0).sum::<u64>(),
        violations.len(),
        ev.wall_s()
    );
    std::process::exit(if violations.is_empty() { 0 } else { 1 })
}

pub fn replay_main(check: &dyn TCheck, _args: &Args, file: &str) -> ! {
    let v: Value = serde_json::from_str(&std::fs::read_to_string(file).unwrap_or_else(|e| {
        simcore::harness_error(&format!("cannot read replay file: {e}"))
    }))
    .unwrap_or_else(|e| simcore::harness_error(&format!("replay file does not parse: {e}")));
    let seed = v["seed"].as_u64().unwrap();
    let tier = Tier::parse(v["tier"].as_str().unwrap()).unwrap();
    let work = v["work"].as_u64().unwrap();
    let plan = match v["trace"].as_array() {
        Some(a) => Plan::Replay {
            trace: a.iter().map(|x| x.as_u64().unwrap() as u16).collect(),
        },
        // no decision trace (the process died): re-run the same seeded schedule
        None => Plan::Explore {
            seed: v["sched_seed"].as_u64().unwrap_or_else(|| simcore::harness_error("replay file has neither trace nor sched_seed")),
            strategy: strategy_from_name(v["strategy"].as_str().unwrap_or("random")),
        },
    };
    let hooks = exec::install_hooks();
    exec::install_quiet_panic_hook();
    let scratch = simcore::Scratch::new(&format!("{}-replay", check.id()));
    let prep = prepare_work(check, seed, tier, work, &scratch.path);
    if v["trace"].as_array().is_none() && std::env::var("VERIF_REPLAY_INNER").is_err() {
        // the recorded violation is a process death: observe it from outside
        let mut child = std::process::Command::new(std::env::current_exe().unwrap())
            .args(std::env::args().skip(1))
            .env("VERIF_REPLAY_INNER", "1")
            .spawn()
            .expect("spawn inner replay");
        let limit = std::env::var("VERIF_STALL_S").ok().and_then(|s| s.parse::<u64>().ok()).unwrap_or(300);
        let start = std::time::Instant::now();
        let st = loop {
            match child.try_wait().expect("wait inner replay") {
                Some(st) => break st,
                None if start.elapsed().as_secs() >= limit => {
                    let _ = child.kill();
                    let _ = child.wait();
                    println!("VIOLATION property={} replay={file}", check.id());
                    println!("  class: process-death:stall - the execution does not come back within {limit} s (recorded: {})", v["class"]);
                    std::process::exit(1)
                }
                None => std::thread::sleep(std::time::Duration::from_millis(200)),
            }
        };
        use std::os::unix::process::ExitStatusExt;
        if let Some(sig) = st.signal() {
            println!("VIOLATION property={} replay={file}", check.id());
            println!("  class: process-death:signal {sig} (recorded: {})", v["class"]);
            std::process::exit(1)
        }
        std::process::exit(st.code().unwrap_or(2))
    }
    proc::flush_stdout();
    let run = run_once(check, &hooks, &prep, plan);
    println!("replay work {work}: outcome {:?}, {} steps, {} choice points", run.outcome, run.steps, run.choice_points);
    if let Outcome::Diverged(d) = &run.outcome {
        simcore::harness_error(&format!("replay diverged from the recorded schedule: {d}"));
    }
    match run.class() {
        Some(c) => {
            println!("VIOLATION property={} replay={file}", check.id());
            println!("  class: {c}");
            println!("  recorded class: {}", v["class"]);
            for d in run.report.complaints.iter().chain(run.history_complaints.iter()).chain(run.post_complaints.iter()).take(6) {
                println!("  {d}");
            }
            std::process::exit(1)
        }
        None => {
            println!("no violation on replay");
            std::process::exit(0)
        }
    }
}
