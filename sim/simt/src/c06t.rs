//! C06, T-flavour pass: reading damaged containers under the simulator's scheduler. Here "never
//! returns" is a fact about a schedule (every task blocked = deadlock, or the step bound = a
//! task spins), not a wall-clock guess. The F-flavour campaign (simf c06) remains the main
//! check; this pass decides hangs of the background decoder path.

use crate::c07::build_image;
use crate::tcheck::{BodyReport, Prepared, Slot, TCheck};
use serde_json::{json, Value};
use simcore::dump::{self, DumpSpec};
use simcore::fault::Fault;
use simcore::gen::{self, Comp, Logical, Packaging, SchemaSpec, SrcKind, StoreKind};
use simcore::layout;
use simcore::prng::Rng;
use simcore::Tier;
use std::path::Path;
use std::sync::Arc;

/// `c05`: the same executions judged by C05's oracle as well - what each reader task observes on
/// the damaged container is, leaf by leaf, what the pristine container says or an error.
pub struct C06T {
    pub c05: bool,
}

static PRISTINE: std::sync::Mutex<Option<std::collections::HashMap<u64, Arc<dump::Dump>>>> = std::sync::Mutex::new(None);

impl TCheck for C06T {
    fn id(&self) -> &'static str {
        if self.c05 {
            "C05"
        } else {
            "C06"
        }
    }
    fn works(&self, tier: Tier) -> u64 {
        match tier {
            Tier::Quick => if self.c05 { 6000 } else { 900 },
            Tier::Thorough => 40_000,
        }
    }
    fn scheds(&self, _tier: Tier) -> u64 {
        3
    }
    fn prepare(&self, seed: u64, _tier: Tier, work: u64, scratch: &Path) -> Prepared {
        // 12 images (codec x size); many works share an image and differ by the fault
        let image_no = work % 12;
        let mut irng = Rng::derive(seed, "c06t-image", image_no);
        let comp = [Comp::Zstd(3), Comp::Lz4(3), Comp::Lzma(1)][(image_no % 3) as usize];
        let n = [3usize, 9, 20, 40][(image_no / 3) as usize];
        let mut contents = crate::c08::gen_contents(&mut irng, n, 1500, &[SrcKind::Cursor], comp);
        for c in contents.iter_mut() {
            c.pack = 1;
        }
        let logical = Logical {
            comp,
            packaging: Packaging::Loose,
            n_packs: 1,
            contents,
            schema: SchemaSpec {
                key_prefix: 1,
                store: StoreKind::Plain,
                variants: false,
                key_pad: 0,
            },
            dedup: false,
            aux_seed: irng.next_u64(),
            opts: Default::default(),
        };
        let dir = scratch.join(format!("img{image_no}"));
        let marker = dir.join("built");
        let hooks = crate::exec::current_hooks();
        let create_knobs = vec![("creator_workers", 1u64), ("cluster_max_blobs", 4u64)];
        let image = if marker.exists() {
            // same image as an earlier work of this process: rebuild the model only
            let mut m = gen::plan_model(&logical);
            let cnt = m.contents.len() as u32;
            m.indexes = vec![("all".into(), 0, cnt)];
            if cnt >= 3 {
                m.indexes.push(("window".into(), 1, cnt - 2));
            }
            crate::c07::Image {
                entry: dir.join("img.jbkm"),
                model: m,
            }
        } else {
            std::fs::create_dir_all(&dir).unwrap();
            let im = build_image(&hooks, logical.clone(), &dir, &create_knobs, simcore::prng::hash_label(seed, "c06t-img", image_no));
            std::fs::write(&marker, b"1").unwrap();
            im
        };
        let names = ["img.jbkm", "img.jbkd", "img.c1.jbkc"];
        let pristine: Vec<Vec<u8>> = names.iter().map(|n| std::fs::read(dir.join(n)).expect("image file")).collect();
        // the fault: mostly damage inside the content pack (cluster data and tails)
        let mut rng = Rng::derive(seed, "c06t-fault", work);
        let fi = if self.c05 {
            // metadata first: directory pack (stores, entries, index headers), then the others
            match rng.below(10) {
                0..=5 => 1,
                6 => 0,
                _ => 2,
            }
        } else if rng.chance(4, 5) {
            2
        } else {
            rng.usize_below(3)
        };
        let len = pristine[fi].len() as u64;
        let spans = layout::scan_file(&pristine[fi]);
        let body_lo = 128.min(len - 1);
        let body_hi = spans.first().map(|s| s.check_info_pos).unwrap_or(len).max(body_lo + 1);
        let fault = match rng.below(10) {
            0..=5 => Fault::Flip {
                file: fi,
                pos: rng.range(body_lo, body_hi - 1),
                mask: *rng.pick(&[0x01u8, 0x10, 0x80, 0xFF]),
            },
            6 => Fault::Zero {
                file: fi,
                pos: rng.range(body_lo, body_hi - 1),
                len: rng.range(1, 64),
            },
            7 => Fault::Overwrite {
                file: fi,
                pos: rng.range(body_lo, body_hi - 1),
                len: rng.range(1, 64),
                seed: rng.next_u64(),
            },
            8 => Fault::Truncate {
                file: fi,
                len: rng.below(len),
            },
            _ => Fault::Flip {
                file: fi,
                pos: rng.below(len),
                mask: 0xFF,
            },
        };
        let mut files = pristine.clone();
        let fired = fault.apply(&mut files);
        let case_dir = scratch.join(format!("case{work}"));
        std::fs::create_dir_all(&case_dir).unwrap();
        for (n, b) in names.iter().zip(&files) {
            std::fs::write(case_dir.join(n), b).unwrap();
        }
        let spec = Arc::new(DumpSpec::for_model(&image.model));
        // what the undamaged container says (once per image and process), read in a sequential
        // simulated execution
        let pristine: Arc<dump::Dump> = {
            let mut cache = PRISTINE.lock().unwrap();
            let map = cache.get_or_insert_with(Default::default);
            match map.get(&image_no) {
                Some(d) => Arc::clone(d),
                None => {
                    let out: Arc<std::sync::Mutex<dump::Dump>> = Arc::new(std::sync::Mutex::new(dump::Dump::default()));
                    let out2 = Arc::clone(&out);
                    let spec2 = Arc::clone(&spec);
                    let pentry = dir.join("img.jbkm");
                    hooks.begin(&[], false);
                    let rep = crate::exec::run_execution(
                        crate::exec::Plan::Explore {
                            seed: 1,
                            strategy: crate::sched::Strategy::Lowest,
                        },
                        move || {
                            if let Ok(c) = jubako::reader::Container::new(&pentry) {
                                let mut d = dump::Dump::default();
                                dump::dump_opened(&c, &spec2, &mut d);
                                *out2.lock().unwrap() = d;
                            }
                        },
                    );
                    let _ = hooks.take();
                    let d = std::mem::take(&mut *out.lock().unwrap());
                    if rep.outcome != crate::exec::Outcome::Completed || d.0.is_empty() {
                        simcore::harness_error("c06t: the pristine image does not read");
                    }
                    let d = Arc::new(d);
                    map.insert(image_no, Arc::clone(&d));
                    d
                }
            }
        };
        let c05 = self.c05;
        let entry = case_dir.join("img.jbkm");
        let knobs = vec![
            ("decode_chunk", *rng.pick(&[7u64, 64, 4096])),
            ("decomp_pool_size", *rng.pick(&[1u64, 8])),
        ];
        // one to three readers share the opened container: several of them can be parked on the
        // same decoder when it fails
        let readers = rng.range(1, 3) as usize;
        let desc = json!({"image": gen::describe(&logical), "fault": fault.encode(), "fired": fired, "readers": readers});
        let kind = fault.kind();
        Prepared {
            desc,
            knobs,
            body: Arc::new(move |slot: &Slot| {
                let mut rep = BodyReport::default();
                rep.notes.insert(format!("fault:{kind}"), fired as u64);
                // open, full dump, check: any value or error is fine; the outcome of the
                // execution (panic / deadlock / step bound) is what is judged
                match jubako::reader::Container::new(&entry) {
                    Err(_) => {
                        rep.notes.insert("open_refused".into(), 1);
                    }
                    Ok(container) => {
                        let container = Arc::new(container);
                        let leaves = Arc::new(std::sync::Mutex::new((0u64, 0u64)));
                        let diffs: Arc<std::sync::Mutex<Vec<String>>> = Arc::new(std::sync::Mutex::new(vec![]));
                        let mut handles = vec![];
                        for r in 0..readers {
                            let container = Arc::clone(&container);
                            let spec = Arc::clone(&spec);
                            let leaves = Arc::clone(&leaves);
                            let diffs = Arc::clone(&diffs);
                            let pristine = Arc::clone(&pristine);
                            let job = move || {
                                let mut d = dump::Dump::default();
                                dump::dump_opened(&container, &spec, &mut d);
                                if c05 {
                                    // C05: every structural leaf is what was written, or an error
                                    if let Some(x) = dump::structural_diff(&pristine, &d).first() {
                                        diffs.lock().unwrap().push(format!("reader {r}: {x}"));
                                    }
                                }
                                let mut l = leaves.lock().unwrap();
                                l.0 += d.0.len() as u64;
                                l.1 += d.0.iter().filter(|(_, x)| x.is_err()).count() as u64;
                            };
                            if readers == 1 {
                                job();
                            } else {
                                handles.push(shuttle::thread::spawn(job));
                            }
                        }
                        for h in handles {
                            let _ = h.join();
                        }
                        rep.complaints.extend(diffs.lock().unwrap().iter().cloned());
                        let l = leaves.lock().unwrap();
                        rep.notes.insert("dump_leaves".into(), l.0);
                        rep.notes.insert("error_leaves".into(), l.1);
                        if readers > 1 {
                            rep.notes.insert("multi_reader_cases".into(), 1);
                        }
                    }
                }
                *slot.lock().unwrap() = rep;
            }),
            record_events: false,
            hard_fault: false,
            one_cpu: false,
            post: None,
            max_scheds: None,
        }
    }
    fn pass_decides(&self) -> String {
        if self.c05 {
            "C05 when several reader tasks share the opened, damaged container: what each of them observes (under seeded schedules, with scheduling points inside every block-CRC computation) is what was written or an error - a check that one thread is still computing must not let another thread through".into()
        } else {
            "non-termination as a fact about a schedule: every task blocked (deadlock) or the 2M step bound (spinning)".into()
        }
    }
    fn rule(&self) -> String {
        if self.c05 {
            return "T-flavour pass of C05: 12 compressed containers x seeded damage (flips, zeroed / overwritten ranges, truncation; 60 % inside the directory pack) read by 1..3 reader tasks under the simulator's scheduler, three schedules each; every reader's full dump is compared leaf by leaf with the pristine dump (equal or error; content bytes only with failing checks)".into();
        }
        "T-flavour pass of C06: 12 compressed containers x seeded damage (flips, zeroed / overwritten ranges, truncation; 80 % inside the content pack) read under the simulator's scheduler (reader task + decoder jobs), two schedules each".into()
    }
    fn real_vs_stub(&self) -> Value {
        crate::c07::C07.real_vs_stub()
    }
}
