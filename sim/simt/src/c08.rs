//! C08 (and the engine of C01): a content pack is created under seeded schedules of the caller
//! thread, the compression workers and the writer thread, then read back in the same execution.

use crate::exec::Event;
use crate::tcheck::{BodyReport, Prepared, Slot, TCheck};
use jubako::creator::Progress;
use jubako::Pack;
use serde_json::{json, Value};
use simcore::gen::{self, Comp, ContentSpec, Flavor, Hint, SimReaderCfg, SimReaderStats, SrcKind};
use simcore::prng::Rng;
use simcore::Tier;
use std::path::{Path, PathBuf};
use std::sync::{Arc, Mutex};

#[derive(Default)]
pub struct Collector {
    pub events: Mutex<Vec<(u8, u32, bool)>>, // (kind: 0 new, 1 handle, 2 written), cluster, compressed
}

impl Progress for Collector {
    fn new_cluster(&self, idx: u32, compressed: bool) {
        self.events.lock().unwrap().push((0, idx, compressed));
    }
    fn handle_cluster(&self, idx: u32, compressed: bool) {
        self.events.lock().unwrap().push((1, idx, compressed));
    }
    fn handle_cluster_written(&self, idx: u32) {
        self.events.lock().unwrap().push((2, idx, false));
    }
}

pub struct Work {
    pub comp: Comp,
    pub contents: Vec<ContentSpec>,
    pub aux_seed: u64,
    pub path: PathBuf,
    pub scratch: PathBuf,
    pub dedup: bool,
    /// every simulated input stream fails hard at this read call (fault-injecting works only)
    pub hard_err_call: Option<u64>,
    /// the creator is dropped without finalize after the last insertion
    pub abandon: bool,
}

pub fn gen_contents(rng: &mut Rng, n: usize, max_len: usize, srcs: &[SrcKind], comp: Comp) -> Vec<ContentSpec> {
    (0..n)
        .map(|i| {
            let len = gen::gen_len(rng, max_len);
            let flavor = *rng.pick(&[
                Flavor::Constant,
                Flavor::Text,
                Flavor::Random,
                Flavor::MixedLowHigh,
                Flavor::MixedHighLow,
                Flavor::SignedText,
                Flavor::SignedRandom,
            ]);
            let hint = if comp == Comp::None {
                *rng.pick(&[Hint::No, Hint::Yes, Hint::Detect])
            } else {
                *rng.pick(&[Hint::Yes, Hint::Yes, Hint::No, Hint::Detect])
            };
            let src = *rng.pick(srcs);
            // a partly consumed reader is only handed over with hints whose path re-positions the
            // stream itself (raw copy, entropy detection)
            let hint = if src == SrcKind::FilePeeked && hint == Hint::Yes { Hint::No } else { hint };
            ContentSpec {
                bytes: Arc::new(gen::gen_bytes(rng, i, len, flavor)),
                hint,
                src,
                pack: 1,
            }
        })
        .collect()
}

/// In one work out of four, every content that is stored raw (hint No) becomes a member of one
/// opened archive file: `InputFile::new_range` over clones of one `File`, which share one file
/// offset. Only for the plain adder (the deduplicating one reads at insertion time).
pub fn share_archive(rng: &mut Rng, contents: &mut [ContentSpec]) {
    if !rng.chance(1, 4) {
        return;
    }
    for c in contents.iter_mut() {
        if c.hint == Hint::No {
            c.src = SrcKind::SharedArchive;
        }
    }
}

/// Create the pack described by `work` and read everything back; complaints go to the report.
pub fn create_and_read_back(work: &Work, report: &mut BodyReport) {
    if let Err(e) = gen::prepare_shared_archive(&work.contents, &work.scratch, work.aux_seed) {
        simcore::harness_error(&format!("cannot prepare the shared archive: {e}"));
    }
    let collector = Arc::new(Collector::default());
    let stats = Arc::new(SimReaderStats::default());
    let opts = gen::BuildOpts {
        progress: collector.clone(),
        sim_cfg: SimReaderCfg {
            short_pm: 300,
            intr_pm: 120,
            err_at_call: work.hard_err_call,
        },
        sim_stats: Arc::clone(&stats),
    };
    let utf8 = camino_path(&work.path);
    let creator = jubako::creator::ContentPackCreator::new_with_progress(
        &utf8,
        jubako::PackId::from(1),
        jubako::VendorId::from(gen::VENDOR),
        Default::default(),
        work.comp.to_jbk(),
        collector.clone(),
    );
    let creator = match creator {
        Ok(c) => c,
        Err(e) => {
            report.complaints.push(format!("ContentPackCreator::new failed: {e}"));
            return;
        }
    };
    // (None: the insertion was refused with the injected input error and the application went on)
    let mut addresses: Vec<Option<u32>> = Vec::with_capacity(work.contents.len());
    // half of the works with a failing input belong to an application that skips an item whose
    // insertion fails and goes on with the rest (the others give up at the first error): if the
    // creator then says Ok at the end, everything it acknowledged must be there
    let skip_failed = work.hard_err_call.is_some() && work.aux_seed % 2 == 0;
    // ... and in half of those exactly one source fails, late in the sequence (the last item, or
    // one or two before it) and read by a compression worker: a fault placed where little work
    // is left to notice it, instead of every simulated stream failing at its k-th read
    let n_contents = work.contents.len();
    let one_late_failure = if skip_failed && (work.aux_seed >> 1) % 2 == 0 && n_contents > 0 {
        Some(n_contents - 1 - (((work.aux_seed >> 2) % 3) as usize).min(n_contents - 1))
    } else {
        None
    };
    let opts_no_error = gen::BuildOpts {
        progress: collector.clone(),
        sim_cfg: SimReaderCfg {
            short_pm: 300,
            intr_pm: 120,
            err_at_call: None,
        },
        sim_stats: Arc::clone(&stats),
    };
    enum Adder {
        Plain(jubako::creator::ContentPackCreator<jubako::creator::NamedFile>),
        Cached(jubako::creator::CachedContentAdder<jubako::creator::ContentPackCreator<jubako::creator::NamedFile>>),
    }
    let mut adder = if work.dedup {
        Adder::Cached(jubako::creator::CachedContentAdder::new(creator, std::rc::Rc::new(())))
    } else {
        Adder::Plain(creator)
    };
    for (i, c) in work.contents.iter().enumerate() {
        use jubako::creator::ContentAdder;
        let late_failing;
        let (c, opts) = match one_late_failure {
            Some(k) if k == i => {
                late_failing = ContentSpec {
                    bytes: Arc::clone(&c.bytes),
                    hint: if work.comp == Comp::None { c.hint } else { Hint::Yes },
                    src: SrcKind::Sim,
                    pack: c.pack,
                };
                report.notes.insert("one_late_failing_source".into(), 1);
                (&late_failing, &opts)
            }
            Some(_) => (c, &opts_no_error),
            None => (c, &opts),
        };
        let input = match gen::make_input(c, i, &work.scratch, work.aux_seed, opts) {
            Ok(x) => x,
            Err(e) => simcore::harness_error(&format!("cannot prepare input {i}: {e}")),
        };
        let r = match &mut adder {
            Adder::Plain(p) => p.add_content(input, c.hint.to_jbk()),
            Adder::Cached(p) => p.add_content(input, c.hint.to_jbk()),
        };
        match r {
            Ok(a) => {
                if a.pack_id != jubako::PackId::from(1) {
                    report.complaints.push(format!("content {i}: address in pack {:?}", a.pack_id));
                }
                addresses.push(Some(a.content_id.into_u64() as u32));
            }
            Err(e) => {
                use std::sync::atomic::Ordering::Relaxed;
                if stats.err.load(Relaxed) > 0 {
                    // a hard input error was injected and is reported: legitimate
                    report.notes.insert("fault:input-hard-error".into(), stats.err.load(Relaxed));
                    report.notes.insert("hard_fault_reported_as_err".into(), 1);
                    if skip_failed {
                        *report.notes.entry("failed_insertion_skipped_application_goes_on".into()).or_insert(0) += 1;
                        addresses.push(None);
                        continue;
                    }
                    return;
                }
                report.complaints.push(format!("add_content({i}) failed: {e}"));
                return;
            }
        }
    }
    if work.abandon {
        // the application gives up (an error of its own, an early return): the creator is dropped
        // without finalize while workers and writer may still be busy. Nothing is asked of the
        // file; the drop must return (every task blocked forever is a deadlock for the scheduler)
        drop(adder);
        report.notes.insert("creator_dropped_without_finalize".into(), 1);
        return;
    }
    let creator = match adder {
        Adder::Plain(p) => p,
        Adder::Cached(p) => p.into_inner(),
    };
    let data = match creator.finalize() {
        Ok((_file, data)) => data,
        Err(e) => {
            use std::sync::atomic::Ordering::Relaxed;
            if stats.err.load(Relaxed) > 0 {
                report.notes.insert("fault:input-hard-error".into(), stats.err.load(Relaxed));
                report.notes.insert("hard_fault_reported_as_err".into(), 1);
                return;
            }
            report.complaints.push(format!("finalize failed: {e}"));
            return;
        }
    };
    use std::sync::atomic::Ordering::Relaxed;
    if stats.err.load(Relaxed) > 0 {
        // the creator says Ok although an input stream failed: everything below must still hold,
        // in particular the failed content must not read back as something else
        report.notes.insert("fault:input-hard-error".into(), stats.err.load(Relaxed));
        report.notes.insert("hard_fault_but_creator_returned_ok".into(), 1);
    }
    report.notes.insert("fault:input-short-read".into(), stats.short.load(Relaxed));
    report.notes.insert("fault:input-interrupted".into(), stats.intr.load(Relaxed));
    // Progress protocol: every opened cluster is written exactly once before finalize returns
    let events = collector.events.lock().unwrap().clone();
    let mut written_order = vec![];
    let mut opened = std::collections::BTreeSet::new();
    let mut written = std::collections::BTreeMap::new();
    for (kind, idx, _) in &events {
        match kind {
            0 => {
                opened.insert(*idx);
            }
            2 => {
                *written.entry(*idx).or_insert(0u32) += 1;
                written_order.push(*idx);
            }
            _ => {}
        }
    }
    // a cluster that was opened but stayed empty is legitimately never written
    for (idx, n) in &written {
        if *n != 1 {
            report.complaints.push(format!("cluster {idx} reported written {n} times"));
        }
        if !opened.contains(idx) {
            report.complaints.push(format!("cluster {idx} written but never opened"));
        }
    }
    report.interleaving = written_order.clone();
    let in_order = written_order.windows(2).all(|w| w[0] < w[1]);
    report.notes.insert(if in_order { "clusters_written_in_order".into() } else { "clusters_written_out_of_order".into() }, 1);
    report.notes.insert("clusters".into(), written_order.len() as u64);

    // expected content ids: without dedup the i-th insertion is content i; with dedup identical
    // byte strings share the id of their first occurrence
    let mut expected_ids: Vec<u32> = vec![];
    let mut first_of: std::collections::HashMap<&[u8], u32> = std::collections::HashMap::new();
    let mut next = 0u32;
    for c in &work.contents {
        if work.dedup {
            if let Some(id) = first_of.get(c.bytes.as_slice()) {
                expected_ids.push(*id);
                continue;
            }
            first_of.insert(c.bytes.as_slice(), next);
        }
        expected_ids.push(next);
        next += 1;
    }
    let injected = stats.err.load(Relaxed) > 0;
    // (after an input error which ids the later insertions get is the creator's business)
    if !injected && addresses != expected_ids.iter().map(|i| Some(*i)).collect::<Vec<_>>() {
        report.complaints.push(format!("returned content ids {addresses:?} differ from the expected {expected_ids:?}"));
    }
    let stored = next;

    // read back
    let reader: jubako::Reader = match jubako::FileSource::open(&work.path) {
        Ok(f) => f.into(),
        Err(e) => {
            report.complaints.push(format!("cannot reopen the pack: {e}"));
            return;
        }
    };
    let pack = match jubako::reader::ContentPack::new(reader) {
        Ok(p) => p,
        Err(e) => {
            report.complaints.push(format!("ContentPack::new on the created pack failed: {}", simcore::dump::err_class(&e)));
            return;
        }
    };
    if pack.uuid() != data.uuid {
        report.complaints.push("uuid of the pack differs from the PackData returned by finalize".into());
    }
    let count = pack.get_content_count().into_u64() as u32;
    if !injected && count != stored {
        report.complaints.push(format!("pack reports {count} contents, {stored} were stored"));
    }
    for (i, c) in work.contents.iter().enumerate() {
        let Some(id) = addresses[i] else { continue };
        match pack.get_content(jubako::ContentIdx::from(id)) {
            Err(e) => report.complaints.push(format!("content {i} (id {id}, {} bytes, hint {:?}): get_content failed: {}", c.bytes.len(), c.hint, simcore::dump::err_class(&e))),
            Ok(None) => report.complaints.push(format!("content {i} (id {id}): no such content")),
            Ok(Some(region)) => {
                if region.size().into_u64() != c.bytes.len() as u64 {
                    report.complaints.push(format!("content {i} (id {id}): size {} instead of {}", region.size().into_u64(), c.bytes.len()));
                    continue;
                }
                // every third content through get_slice (one call for the whole range), the others
                // through stream()
                let got = if i % 3 == 2 {
                    region
                        .get_slice(jubako::Offset::zero(), c.bytes.len())
                        .map(|s| s.to_vec())
                        .map_err(|e| simcore::dump::err_class(&e))
                } else if i % 5 == 1 {
                    // the consuming conversion region -> stream
                    use std::io::Read;
                    let mut v = vec![];
                    jubako::reader::ByteStream::from(region.clone()).read_to_end(&mut v).map(|_| v).map_err(|e| format!("{:?}", e.kind()))
                } else {
                    simcore::dump::read_region(&region)
                };
                match got {
                    Ok(b) if b == **c.bytes => {}
                    Ok(b) => report.complaints.push(format!(
                        "content {i} (id {id}, {} bytes, hint {:?}, src {:?}): wrong bytes (starts {:?})",
                        c.bytes.len(), c.hint, c.src, String::from_utf8_lossy(&b[..b.len().min(8)])
                    )),
                    Err(e) => report.complaints.push(format!("content {i} (id {id}): read failed: {e}")),
                }
            }
        }
    }
    let stored = if injected { count } else { stored };
    for beyond in [stored, stored + 1, stored + 4095] {
        match pack.get_content(jubako::ContentIdx::from(beyond)) {
            Ok(None) => {}
            Ok(Some(_)) => report.complaints.push(format!("address {beyond} past the count answers with a content")),
            Err(e) => report.complaints.push(format!("address {beyond} past the count answers Err({})", simcore::dump::err_class(&e))),
        }
    }
    match pack.check() {
        Ok(true) => {}
        Ok(false) => report.complaints.push("check() of the created pack is false".into()),
        Err(e) => report.complaints.push(format!("check() of the created pack failed: {}", simcore::dump::err_class(&e))),
    }
    drop(pack);
    // Views are owned values: a helper that opens the pack, returns the regions and closes it
    // again. They are read only after the pack object is gone (up to 24 of them, spread).
    let step = (work.contents.len() / 24).max(1);
    let held: Vec<(usize, jubako::reader::ByteRegion)> = {
        let pack = match jubako::FileSource::open(&work.path).map(jubako::Reader::from).map_err(|e| e.to_string()).and_then(|r| {
            jubako::reader::ContentPack::new(r).map_err(|e| simcore::dump::err_class(&e))
        }) {
            Ok(p) => p,
            Err(e) => {
                report.complaints.push(format!("second opening of the created pack failed: {e}"));
                return;
            }
        };
        (0..work.contents.len())
            .step_by(step)
            .filter_map(|i| match addresses[i].map(|id| pack.get_content(jubako::ContentIdx::from(id))) {
                Some(Ok(Some(r))) => Some((i, r)),
                _ => None, // already complained about above
            })
            .collect()
    };
    report.notes.insert("regions_read_after_their_pack_was_closed".into(), held.len() as u64);
    for (i, region) in held {
        let c = &work.contents[i];
        let got = if i % 2 == 0 {
            simcore::dump::read_region(&region)
        } else {
            region.get_slice(jubako::Offset::zero(), c.bytes.len()).map(|s| s.to_vec()).map_err(|e| simcore::dump::err_class(&e))
        };
        match got {
            Ok(b) if b == **c.bytes => {}
            Ok(_) => report.complaints.push(format!("content {i} read from a region that outlived its pack: wrong bytes")),
            Err(e) => report.complaints.push(format!("content {i} ({} bytes) read from a region that outlived its pack: read failed: {e}", c.bytes.len())),
        }
    }
}

fn camino_path(p: &Path) -> jubako::Utf8PathBuf {
    jubako::Utf8PathBuf::from(p.to_str().unwrap())
}

pub struct C08;

impl TCheck for C08 {
    fn id(&self) -> &'static str {
        "C08"
    }
    fn works(&self, tier: Tier) -> u64 {
        match tier {
            Tier::Quick => 320,
            Tier::Thorough => 6000,
        }
    }
    fn scheds(&self, tier: Tier) -> u64 {
        match tier {
            Tier::Quick => 32,
            Tier::Thorough => 128,
        }
    }
    fn prepare(&self, seed: u64, _tier: Tier, work: u64, scratch: &Path) -> Prepared {
        let mut rng = Rng::derive(seed, "c08-work", work);
        let comp = *rng.pick(&[Comp::Zstd(3), Comp::Zstd(-5), Comp::Lz4(3), Comp::Lzma(1), Comp::Zstd(5), Comp::None]);
        let n = rng.range(1, 40) as usize;
        let srcs = [SrcKind::Cursor, SrcKind::Cursor, SrcKind::Sim, SrcKind::File, SrcKind::FileRange, SrcKind::FilePeeked, SrcKind::FileRangeToEnd, SrcKind::FileReplaced];
        let contents = gen_contents(&mut rng, n, 600, &srcs, comp);
        let mut contents = contents;
        share_archive(&mut rng, &mut contents);
        // one work in sixteen stores a large incompressible content in a compressed cluster (its
        // stored size exceeds 1 MiB) between ordinary ones
        let big = work % 16 == 11 && comp != Comp::None;
        if big {
            let at = rng.usize_below(contents.len() + 1);
            let len = rng.range(1_100_000, 1_400_000) as usize;
            contents.insert(
                at,
                ContentSpec {
                    bytes: Arc::new(gen::gen_bytes(&mut rng, 900, len, Flavor::Random)),
                    hint: Hint::Yes,
                    src: SrcKind::Cursor,
                    pack: 1,
                },
            );
        }
        // one work in sixteen has a single compressible content larger than everything the
        // dispatch queue may hold at once (2 x workers clusters of 4 MiB) with one or two workers
        // giants, two schedules each: one compressible content above 128 MiB (beyond every codec
        // window), and two contents above 256 MiB for a single worker (anything that is spilled,
        // recycled or sized per cluster meets its second user)
        let giant_one = work == 21;
        let giant_two = work == 37;
        if giant_one || giant_two {
            contents.truncate(3);
            for k in 0..(if giant_two { 2 } else { 1 }) {
                let len = if giant_two { (258usize << 20) + (k << 16) + 77 } else { (130usize << 20) + 12_345 };
                let at = rng.usize_below(contents.len() + 1);
                contents.insert(
                    at,
                    ContentSpec {
                        bytes: Arc::new(gen::gen_bytes(&mut rng, 600 + k, len, Flavor::Constant)),
                        hint: Hint::Yes,
                        src: SrcKind::Cursor,
                        pack: 1,
                    },
                );
            }
        }
        let comp = if giant_one { Comp::Zstd(3) } else if giant_two { *rng.pick(&[Comp::Zstd(3), Comp::Lz4(3)]) } else { comp };
        let oversize = work % 64 == 13;
        // (a fast codec: the point is the size, not the compression)
        let comp = if oversize { *rng.pick(&[Comp::Lz4(3), Comp::Zstd(-5)]) } else { comp };
        // one work in sixteen does not set the worker-count knob and runs as on a one-CPU host
        let one_cpu = work % 16 == 3;
        let workers = if oversize || giant_two { 1 } else if giant_one { 2 } else { rng.range(1, 15) };
        if oversize {
            let len = (2 * workers as usize + 1) * (4 << 20) + rng.range(1, 100_000) as usize;
            let at = rng.usize_below(contents.len() + 1);
            contents.insert(
                at,
                ContentSpec {
                    bytes: Arc::new(gen::gen_bytes(&mut rng, 700, len, Flavor::Text)),
                    hint: Hint::Yes,
                    src: SrcKind::Cursor,
                    pack: 1,
                },
            );
        }
        let max_blobs = rng.range(1, 6);
        let max_size = *rng.pick(&[256u64, 1024, 4096]);
        // one work in sixteen has a run of zero-length compressible contents long enough to fill
        // more whole clusters than the back-pressure limit allows in flight (clusters with nothing
        // to compress still occupy a slot), followed by ordinary compressed clusters
        let empty_run = work % 16 == 9 && comp != Comp::None && !one_cpu;
        let (workers, max_blobs) = if empty_run { (rng.range(1, 2), rng.range(1, 3)) } else { (workers, max_blobs) };
        if empty_run {
            let at = rng.usize_below(contents.len() + 1);
            let n_empty = (2 * workers * max_blobs + rng.range(1, 3) * max_blobs) as usize;
            for k in 0..n_empty {
                contents.insert(
                    at,
                    ContentSpec {
                        bytes: Arc::new(vec![]),
                        hint: Hint::Yes,
                        src: if k % 3 == 0 { SrcKind::Sim } else { SrcKind::Cursor },
                        pack: 1,
                    },
                );
            }
            for k in 0..3 {
                contents.push(ContentSpec {
                    bytes: Arc::new(gen::gen_bytes(&mut rng, 800 + k, 40 + 30 * k, Flavor::Text)),
                    hint: Hint::Yes,
                    src: SrcKind::Cursor,
                    pack: 1,
                });
            }
        }
        // one work in sixteen has a long run of small compressed clusters (150..400 of them, one or
        // two blobs each, 2..5 workers): many more clusters than any queue, window or table of a
        // few dozen slots holds - with a stalled worker (scheduler strategy "starve") one cluster
        // is still being compressed while hundreds dispatched after it are written
        let long_run = work % 16 == 6 && !one_cpu && !empty_run;
        let comp = if long_run && comp == Comp::None { Comp::Lz4(1) } else { comp };
        let (workers, max_blobs) = if long_run { (rng.range(2, 5), rng.range(1, 2)) } else { (workers, max_blobs) };
        if long_run {
            for k in 0..rng.range(150, 400) as usize {
                contents.push(ContentSpec {
                    bytes: Arc::new(gen::gen_bytes(&mut rng, 900 + k, 20 + k % 41, Flavor::Text)),
                    hint: Hint::Yes,
                    src: SrcKind::Cursor,
                    pack: 1,
                });
            }
        }
        let mut knobs = vec![
            ("creator_workers", workers),
            ("cluster_max_blobs", max_blobs),
            ("cluster_max_size", max_size),
            ("decode_chunk", *rng.pick(&[7u64, 64, 4096])),
            ("decomp_pool_size", *rng.pick(&[1u64, 2, 8])),
            ("stream_short_read_pm", *rng.pick(&[0u64, 0, 250])),
            ("stream_short_read_seed", rng.next_u64() >> 1),
        ];
        if one_cpu {
            knobs.retain(|(k, _)| *k != "creator_workers");
        }
        if big || oversize || giant_one || giant_two {
            // keep the big content in a cluster of its own size class
            knobs.retain(|(k, _)| *k != "cluster_max_size" && *k != "decode_chunk");
            knobs.push(("decode_chunk", 65536));
        }
        // one work in six injects a hard error into its simulated input streams
        let hard_err_call = if work % 6 == 5 && contents.iter().any(|c| c.src == SrcKind::Sim && c.bytes.len() > 0) {
            Some(rng.range(0, 3))
        } else {
            None
        };
        let dir = scratch.join(format!("w{work}"));
        std::fs::create_dir_all(&dir).unwrap();
        let w = Arc::new(Work {
            comp,
            contents,
            aux_seed: rng.next_u64(),
            path: dir.join("pack.jbkc"),
            scratch: dir.clone(),
            dedup: false,
            hard_err_call,
            // one work in eight (never the giants)
            abandon: work % 8 == 3 && !(big || oversize || giant_one || giant_two),
        });
        let desc = json!({"long_run_of_small_compressed_clusters": long_run, "creator_dropped_without_finalize": w.abandon, "giant_above_128_MiB": giant_one, "two_giants_above_256_MiB_one_worker": giant_two, "content_larger_than_the_whole_dispatch_queue": oversize, "one_cpu_host_no_worker_knob": one_cpu, "run_of_empty_compressible_contents": empty_run, "big_incompressible_content": big, "hard_input_error_at_read_call": hard_err_call, "comp": comp.name(), "contents": w.contents.iter().map(|c| format!("{}{}{}", c.bytes.len(), match c.hint {Hint::Yes=>"Y",Hint::No=>"N",Hint::Detect=>"D"}, match c.src {SrcKind::Cursor=>"c",SrcKind::File=>"f",SrcKind::FileRange=>"r",SrcKind::Sim=>"s",SrcKind::FilePeeked=>"p",SrcKind::FileRangeToEnd=>"e",SrcKind::SharedArchive=>"a",SrcKind::FileReplaced=>"x"})).collect::<Vec<_>>(),
                          "workers": workers, "cluster_max_blobs": max_blobs, "cluster_max_size": max_size});
        let w2 = Arc::clone(&w);
        Prepared {
            desc,
            knobs,
            body: Arc::new(move |slot: &Slot| {
                let mut rep = BodyReport::default();
                create_and_read_back(&w2, &mut rep);
                *slot.lock().unwrap() = rep;
            }),
            record_events: true,
            hard_fault: hard_err_call.is_some(),
            one_cpu,
            post: None,
            max_scheds: if giant_one || giant_two { Some(2) } else { None },
        }
    }
    fn history_oracle(&self, events: &[Event], _report: &BodyReport) -> Vec<String> {
        // back-pressure: the dispatch queue never exceeds its limit
        let mut bad = vec![];
        for e in events {
            if e.site == "dispatch_queue" && e.a > e.b {
                bad.push(format!("dispatch queue holds {} clusters, limit {}", e.a, e.b));
            }
        }
        bad
    }
    fn rule(&self) -> String {
        "works = seeded content-pack insertion sequences (1..40 contents, hints mixed so raw and compressed clusters interleave, cluster limits 1..6 blobs / 256..4096 bytes so 2..40 clusters, workers 1..15, all codecs, Cursor / file / file-range / perturbing SimReader sources); each work runs under many seeded schedules (uniform random, sticky, PCT depth 1..3) of the caller, the compression workers, the writer thread and the decoder jobs; the pack is read back in the same execution; non-trivial = at least one choice point where the scheduler did not continue the running task; distinct = distinct (work, decision trace)".into()
    }
    fn real_vs_stub(&self) -> Value {
        json!({"real": ["ContentPackCreator, ClusterCompressor, ClusterWriter, ContentPack reader, zstd/lz4/xz2 codecs (FFI)", "files on tmpfs", "dropout::Dropper thread (only drops values)"],
               "modelled": ["std::sync::{Mutex,Condvar,RwLock,mpsc} and std::thread in jubako's pipeline and reader: shuttle models, every lock release is a scheduling point"],
               "stub": ["spmc channel: Arc<Mutex<mpsc::Receiver>> with the same one-consumer-per-item semantics", "rayon decompression pool: one modelled thread per job behind a counting semaphore of knob(decomp_pool_size) slots"],
               "simulated": ["every scheduling decision (SimScheduler, seeded)", "input stream behaviour (short reads, Interrupted)", "OS randomness (seeded)"]})
    }
    fn assumptions(&self) -> Vec<String> {
        vec!["cluster limits are shrunk through the cfg(jubako_verif) twin of ClusterCreator::is_full; the shipped limits (4095 blobs / 4 MiB) are exercised by C01's boundary workloads".into()]
    }
    fn required_probes(&self, _tier: Tier) -> Vec<&'static str> {
        vec!["clusters_written_out_of_order", "clusters_written_in_order", "backpressure_engaged", "dispatch_without_wait"]
    }
}
