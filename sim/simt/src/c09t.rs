//! C09, T-flavour pass: creation through `BasicCreator` with several compression workers under the
//! simulator's scheduler. At every output I/O point of the creators the simulated disk (the
//! scratch directory) is copied: each copy is exactly what a process death at that instant would
//! leave behind (crash = process termination; what reached the kernel survives, user-space
//! buffers do not). Every distinct crash state is judged after the execution, and so is the
//! final state - whether creation returned, failed on an injected I/O error, panicked or
//! stalled. The F-flavour campaign (simf c09) enumerates every byte offset with one worker and a
//! deterministic operation sequence; this pass adds what it cannot: which thread gets to which
//! operation first.

use crate::exec::{self, Outcome, Plan};
use crate::sched::Strategy;
use crate::tcheck::{BodyReport, Prepared, Slot, TCheck};
use serde_json::{json, Value};
use simcore::dump::{self, DumpSpec, Leaf};
use simcore::gen::{self, Comp, ContentSpec, Flavor, Hint, Logical, Model, Packaging, SchemaSpec, SrcKind, StoreKind};
use simcore::layout;
use simcore::prng::Rng;
use simcore::Tier;
use std::collections::BTreeMap;
use std::path::{Path, PathBuf};
use std::sync::{Arc, Mutex};
use verif_rt::io::{IoDecision, IoKind, IoOp};

pub struct C09T;

const NAME: &str = "out";

type Files = Vec<(String, Vec<u8>)>;

#[derive(Clone, Debug)]
enum Variant {
    /// crash states only
    Snapshots,
    /// the k-th output operation of the execution fails with this errno; crash states keep being
    /// taken afterwards (a death during the clean-up that follows an error)
    FailAt { k: u64, errno: i32 },
    /// a write really transfers part of its bytes, then fails
    PartialThenFailAt { k: u64, errno: i32, pm: u64 },
    /// short writes / reads and `Interrupted`, which callers must absorb
    Benign { seed: u64, per_mille: u64 },
    /// two creators for the same destination are alive at once (two cron runs, a re-launched
    /// command): both write the same container; whichever rename comes last wins, and at every
    /// instant the destination is absent, the old container or a complete new one
    TwoCreators,
}

impl Variant {
    fn name(&self) -> &'static str {
        match self {
            Variant::Snapshots => "crash-states-only",
            Variant::FailAt { .. } => "io-error",
            Variant::PartialThenFailAt { .. } => "partial-write-then-error",
            Variant::Benign { .. } => "benign-short-or-interrupted",
            Variant::TwoCreators => "two-creators-one-destination",
        }
    }
    fn is_hard(&self) -> bool {
        matches!(self, Variant::FailAt { .. } | Variant::PartialThenFailAt { .. })
    }
}

struct Sc {
    packaging: Packaging,
    logical: Logical,
    model: Model,
    /// files of the older container at the destination (empty = none)
    old_files: Files,
    variant: Variant,
    case_dir: PathBuf,
    judge_dir: PathBuf,
    knobs: Vec<(&'static str, u64)>,
}

#[derive(Default)]
struct Shared {
    /// distinct crash states of the running execution: (first op index, op description, files)
    states: Vec<(u64, String, Files)>,
    seen: BTreeMap<u64, ()>,
    ops: u64,
    fired: BTreeMap<&'static str, u64>,
    /// Some(true) = creation returned Ok, Some(false) = Err, None = it never returned
    returned: Option<bool>,
}

fn read_files(dir: &Path) -> Files {
    let mut v = vec![];
    if let Ok(rd) = std::fs::read_dir(dir) {
        for e in rd.flatten() {
            let p = e.path();
            if p.is_file() {
                let name = p.file_name().unwrap().to_string_lossy().to_string();
                v.push((name, std::fs::read(&p).unwrap_or_default()));
            }
        }
    }
    v.sort();
    v
}

fn files_hash(f: &Files) -> u64 {
    let mut h: u64 = 0xcbf29ce484222325;
    let mut eat = |b: &[u8]| {
        for x in b {
            h ^= *x as u64;
            h = h.wrapping_mul(0x100000001b3);
        }
        h ^= 0xff;
        h = h.wrapping_mul(0x100000001b3);
    };
    for (n, b) in f {
        eat(n.as_bytes());
        eat(b);
    }
    h
}

fn logical_for(rng: &mut Rng, packaging: Packaging, comp: Comp, n: usize, old: bool) -> Logical {
    let contents = (0..n)
        .map(|i| {
            let len = *rng.pick(&[0usize, 1, 9, 40, 90, 300, 700]) + rng.below(9) as usize;
            let flavor = *rng.pick(&[Flavor::Constant, Flavor::Text, Flavor::Random]);
            let mut bytes = gen::gen_bytes(rng, i, len, flavor);
            if old && !bytes.is_empty() {
                bytes[0] = b'O';
            }
            ContentSpec {
                bytes: Arc::new(bytes),
                // mixed routes: raw clusters go straight to the writer, compressed ones through a
                // worker, so the order of the output operations is a race
                hint: if comp == Comp::None { Hint::No } else { *rng.pick(&[Hint::Yes, Hint::Yes, Hint::No]) },
                src: SrcKind::Cursor,
                pack: 1,
            }
        })
        .collect();
    Logical {
        comp,
        packaging,
        n_packs: 1,
        contents,
        schema: SchemaSpec {
            key_prefix: 1,
            store: StoreKind::Plain,
            variants: false,
            key_pad: 0,
        },
        dedup: false,
        aux_seed: rng.next_u64(),
        opts: Default::default(),
    }
}

/// One nearly sequential simulated execution (used for the older container and for the
/// reference run that yields the model and the number of output operations).
fn build_fixed(hooks: &exec::THooks, logical: &Logical, dir: &Path, knobs: &[(&'static str, u64)], seed: u64) -> (gen::Built, u64) {
    let out: Arc<Mutex<Option<Result<gen::Built, String>>>> = Arc::new(Mutex::new(None));
    let out2 = Arc::clone(&out);
    let dir2 = dir.to_path_buf();
    let logical2 = logical.clone();
    hooks.begin(knobs, false);
    let ops = Arc::new(Mutex::new(0u64));
    let ops2 = Arc::clone(&ops);
    hooks.set_io_handler(Some(Box::new(move |_op: &IoOp| {
        *ops2.lock().unwrap() += 1;
        IoDecision::Proceed
    })));
    let rep = exec::run_execution(
        Plan::Explore {
            seed,
            strategy: Strategy::Lowest,
        },
        move || {
            simcore::osrand::reseed(seed);
            let r = gen::build(&logical2, &dir2, NAME, &gen::BuildOpts::default()).map_err(|e| e.to_string());
            *out2.lock().unwrap() = Some(r);
        },
    );
    let _ = hooks.take();
    if rep.outcome != Outcome::Completed {
        simcore::harness_error(&format!("C09T: fault-free creation ended {:?}", rep.outcome));
    }
    let built = match out.lock().unwrap().take() {
        Some(Ok(b)) => b,
        Some(Err(e)) => simcore::harness_error(&format!("C09T: fault-free creation failed: {e}")),
        None => simcore::harness_error("C09T: fault-free creation produced nothing"),
    };
    let n = *ops.lock().unwrap();
    (built, n)
}

fn expected_names(packaging: Packaging) -> Vec<String> {
    gen::expected_files(packaging, Path::new("/x"), NAME)
        .iter()
        .map(|p| p.file_name().unwrap().to_string_lossy().to_string())
        .collect()
}

/// Judge one state of the simulated disk. Must run inside a simulated execution (the reader's
/// locks and decoder jobs are shuttle objects in this flavour).
fn judge_state(sc: &Sc, files: &Files, must_be_new: bool) -> (Option<String>, &'static str) {
    let dest_name = format!("{NAME}.jbk");
    let get = |n: &str| files.iter().find(|(f, _)| f == n).map(|(_, b)| b);
    let Some(dest_bytes) = get(&dest_name) else {
        if must_be_new {
            return (Some("creator returned Ok but the destination does not exist".into()), "bad");
        }
        return (None, "absent");
    };
    if !sc.old_files.is_empty() {
        let old_dest = sc.old_files.iter().find(|(n, _)| *n == dest_name).unwrap();
        if *dest_bytes == old_dest.1 {
            if must_be_new {
                return (Some("creator returned Ok but the destination still holds the old container".into()), "bad");
            }
            let produced = expected_names(sc.packaging);
            for (name, bytes) in &sc.old_files {
                if produced.contains(name) {
                    continue;
                }
                match get(name) {
                    Some(b) if b == bytes => {}
                    Some(_) => return (Some(format!("the old container is still at the destination but its file {name}, which the new creation does not produce, was modified")), "bad"),
                    None => return (Some(format!("the old container is still at the destination but its file {name}, which the new creation does not produce, is gone")), "bad"),
                }
            }
            return (None, "old-kept");
        }
    }
    // the destination must be the NEW, complete container
    if let Err(e) = layout::complete(dest_bytes) {
        return (Some(format!("destination exists but is not a complete file: {e}")), "bad");
    }
    // materialise the state and read it with the library
    let _ = std::fs::remove_dir_all(&sc.judge_dir);
    std::fs::create_dir_all(&sc.judge_dir).unwrap();
    for (n, b) in files {
        std::fs::write(sc.judge_dir.join(n), b).unwrap();
    }
    let mut known_uuids: Vec<[u8; 16]> = vec![];
    for name in expected_names(sc.packaging) {
        let Some(bytes) = get(&name) else {
            return (Some(format!("entry point exists but the pack file {name} it refers to does not")), "bad");
        };
        if let Err(e) = layout::complete(bytes) {
            return (Some(format!("entry point exists but pack file {name} is incomplete: {e}")), "bad");
        }
        match jubako::tools::open_pack(sc.judge_dir.join(&name)).and_then(|cp| cp.check()) {
            Ok(true) => {}
            other => {
                return (
                    Some(format!("pack file {name} does not open and verify: {:?}", other.map_err(|e| dump::err_class(&e)))),
                    "bad",
                )
            }
        }
        for s in layout::scan_file(bytes) {
            known_uuids.push(s.uuid);
        }
    }
    let spec = DumpSpec::for_model(&sc.model);
    let d = dump::dump_container(&sc.judge_dir.join(&dest_name), &spec);
    // every pack the entry point names is in one of the files the packaging produces: with an
    // older container around, a new entry point next to an old pack file would fail here
    for (path, leaf) in &d.0 {
        if !path.starts_with("manifest/packinfo[") {
            continue;
        }
        let Leaf::Val(s) = leaf else { continue };
        let Some(u) = s.split_whitespace().find_map(|t| t.strip_prefix("uuid=")) else { continue };
        let Ok(u) = uuid::Uuid::parse_str(u) else { continue };
        if !known_uuids.contains(u.as_bytes()) {
            return (
                Some(format!("the entry point names pack {u}, which is in none of the files this packaging produces (stale or missing pack file)")),
                "bad",
            );
        }
    }
    let readable = sc.packaging == Packaging::BasicOne;
    let mism = dump::check_against_model(&d, &sc.model, readable);
    if let Some(m) = mism.first() {
        return (Some(format!("destination opens but does not read as the model says: {m}")), "bad");
    }
    (None, "new")
}

impl TCheck for C09T {
    fn id(&self) -> &'static str {
        "C09"
    }
    fn works(&self, tier: Tier) -> u64 {
        match tier {
            Tier::Quick => 1920,
            Tier::Thorough => 24000,
        }
    }
    fn scheds(&self, tier: Tier) -> u64 {
        match tier {
            Tier::Quick => 6,
            Tier::Thorough => 12,
        }
    }
    fn prepare(&self, seed: u64, _tier: Tier, work: u64, scratch: &Path) -> Prepared {
        let mut rng = Rng::derive(seed, "c09t-work", work);
        let packaging = [Packaging::BasicOne, Packaging::BasicTwo, Packaging::BasicNoConcat][(work % 3) as usize];
        let comp = *rng.pick(&[Comp::Zstd(3), Comp::Lz4(3), Comp::Zstd(3), Comp::None]);
        let n = if rng.chance(1, 4) { rng.range(10, 28) } else { rng.range(1, 10) } as usize;
        let old_packaging = match rng.below(4) {
            0 => Some(packaging),
            1 => Some(*rng.pick(&[Packaging::BasicOne, Packaging::BasicTwo, Packaging::BasicNoConcat])),
            _ => None,
        };
        let workers = rng.range(1, 4);
        let knobs: Vec<(&'static str, u64)> = vec![
            ("creator_workers", workers),
            ("cluster_max_blobs", rng.range(1, 4)),
            ("decomp_pool_size", 2),
        ];
        let dir = scratch.join(format!("w{work}"));
        let _ = std::fs::remove_dir_all(&dir);
        std::fs::create_dir_all(&dir).unwrap();
        let hooks = exec::current_hooks();
        // the older container, built once under a fixed schedule
        let old_files = match old_packaging {
            None => vec![],
            Some(op) => {
                let l = logical_for(&mut Rng::derive(seed, "c09t-old", work), op, comp, n + 1, true);
                let od = dir.join("old");
                std::fs::create_dir_all(&od).unwrap();
                build_fixed(&hooks, &l, &od, &knobs, simcore::prng::hash_label(seed, "c09t-old-seed", work));
                read_files(&od)
            }
        };
        // reference run of the new container: the model, and how many output operations there are
        let logical = logical_for(&mut rng, packaging, comp, n, false);
        let rd = dir.join("ref");
        std::fs::create_dir_all(&rd).unwrap();
        let (built, n_ops) = build_fixed(&hooks, &logical, &rd, &knobs, 0x6a75_6261_6b6f);
        let variant = match work % 8 {
            // (one-file packaging only: with several files per container two concurrent creators
            // legitimately overwrite each other's pack files, which the property does not cover)
            0 if work % 16 == 8 && packaging == Packaging::BasicOne => Variant::TwoCreators,
            0 | 1 | 2 => Variant::Snapshots,
            3 | 4 => Variant::FailAt {
                k: rng.below(n_ops + 1),
                errno: *rng.pick(&[28, 5]),
            },
            5 => Variant::PartialThenFailAt {
                k: rng.below(n_ops + 1),
                errno: 28,
                pm: rng.below(1000),
            },
            _ => Variant::Benign {
                seed: rng.next_u64(),
                per_mille: *rng.pick(&[100u64, 300]),
            },
        };
        let desc = json!({"packaging": packaging.name(), "comp": comp.name(), "workers": workers,
            "contents": logical.contents.iter().map(|c| format!("{}{}", c.bytes.len(), match c.hint {Hint::Yes=>"Y",Hint::No=>"N",Hint::Detect=>"D"})).collect::<Vec<_>>(),
            "old_container_at_destination": old_packaging.map(|p| p.name()), "variant": format!("{variant:?}"),
            "output_operations_in_reference_run": n_ops});
        let sc = Arc::new(Sc {
            packaging,
            logical,
            model: built.model,
            old_files,
            variant,
            case_dir: dir.join("case"),
            judge_dir: dir.join("judge"),
            knobs: knobs.clone(),
        });
        let shared: Arc<Mutex<Shared>> = Arc::new(Mutex::new(Shared::default()));
        let sc_b = Arc::clone(&sc);
        let sh_b = Arc::clone(&shared);
        let body = Arc::new(move |slot: &Slot| {
            let sc = &sc_b;
            *sh_b.lock().unwrap() = Shared::default();
            let _ = std::fs::remove_dir_all(&sc.case_dir);
            std::fs::create_dir_all(&sc.case_dir).unwrap();
            for (n, b) in &sc.old_files {
                std::fs::write(sc.case_dir.join(n), b).unwrap();
            }
            let sh = Arc::clone(&sh_b);
            let case_dir = sc.case_dir.clone();
            let variant = sc.variant.clone();
            let mut brng = match &variant {
                Variant::Benign { seed, .. } => Rng::derive(*seed, "c09t-benign", 0),
                _ => Rng::derive(0, "unused", 0),
            };
            exec::current_hooks().set_io_handler(Some(Box::new(move |op: &IoOp| {
                let mut sh = sh.lock().unwrap();
                let k = sh.ops;
                sh.ops += 1;
                // the crash state "the process dies right before this operation"
                let files = read_files(&case_dir);
                let h = files_hash(&files);
                if sh.seen.insert(h, ()).is_none() {
                    sh.states.push((k, format!("before op {k}: {} {} ({} bytes)", op.kind.as_str(), file_tag(op.file), op.len), files));
                }
                match &variant {
                    Variant::Snapshots => IoDecision::Proceed,
                    Variant::FailAt { k: at, errno } if *at == k => {
                        *sh.fired.entry("io-error").or_insert(0) += 1;
                        IoDecision::Fail(*errno)
                    }
                    Variant::PartialThenFailAt { k: at, errno, pm } if *at == k => {
                        *sh.fired.entry("partial-write-then-error").or_insert(0) += 1;
                        IoDecision::PartialThenFail((op.len as u64 * pm / 1000) as usize, *errno)
                    }
                    Variant::Benign { per_mille, .. } => {
                        if matches!(op.kind, IoKind::Write | IoKind::Read) && brng.below(1000) < *per_mille {
                            if op.len > 1 && brng.chance(1, 2) {
                                *sh.fired.entry("short-write-or-read").or_insert(0) += 1;
                                IoDecision::Short(brng.range(1, op.len as u64 - 1) as usize)
                            } else {
                                *sh.fired.entry("interrupted").or_insert(0) += 1;
                                IoDecision::Interrupted
                            }
                        } else {
                            IoDecision::Proceed
                        }
                    }
                    _ => IoDecision::Proceed,
                }
            })));
            let r = if matches!(sc.variant, Variant::TwoCreators) {
                // a second creator of the same container on its own task
                let sc2 = Arc::clone(sc);
                let other = shuttle::thread::spawn(move || gen::build(&sc2.logical, &sc2.case_dir, NAME, &gen::BuildOpts::default()).map(|_| ()).map_err(|e| e.to_string()));
                let mine = gen::build(&sc.logical, &sc.case_dir, NAME, &gen::BuildOpts::default());
                match other.join() {
                    Ok(Ok(())) => mine,
                    Ok(Err(e)) => Err(e.into()),
                    Err(_) => Err("the second creator panicked".into()),
                }
            } else {
                gen::build(&sc.logical, &sc.case_dir, NAME, &gen::BuildOpts::default())
            };
            exec::current_hooks().set_io_handler(None);
            let mut rep = BodyReport::default();
            {
                let mut sh = sh_b.lock().unwrap();
                sh.returned = Some(r.is_ok());
            }
            if let Err(e) = &r {
                if !sc.variant.is_hard() {
                    rep.complaints.push(format!("creation failed although no hard fault was injected ({}): {e}", sc.variant.name()));
                }
            }
            *slot.lock().unwrap() = rep;
        });
        let sc_p = Arc::clone(&sc);
        let sh_p = Arc::clone(&shared);
        let post = Arc::new(move |outcome: &Outcome, _rep: &BodyReport| -> (Vec<String>, BTreeMap<String, u64>) {
            let sc = Arc::clone(&sc_p);
            let (states, returned, fired, ops) = {
                let mut sh = sh_p.lock().unwrap();
                (std::mem::take(&mut sh.states), sh.returned, std::mem::take(&mut sh.fired), sh.ops)
            };
            let final_files = read_files(&sc.case_dir);
            let must_be_new = returned == Some(true) && matches!(outcome, Outcome::Completed);
            let out: Arc<Mutex<(Vec<String>, BTreeMap<String, u64>)>> = Arc::new(Mutex::new(Default::default()));
            let out2 = Arc::clone(&out);
            let hooks = exec::current_hooks();
            let knobs: Vec<(&'static str, u64)> = sc.knobs.iter().filter(|(k, _)| *k == "decomp_pool_size").cloned().collect();
            hooks.begin(&knobs, false);
            let n_states = states.len() as u64;
            let rep = exec::run_execution(
                Plan::Explore {
                    seed: 7,
                    strategy: Strategy::Lowest,
                },
                move || {
                    let mut bad = vec![];
                    let mut kinds: BTreeMap<String, u64> = BTreeMap::new();
                    for (_k, what, files) in &states {
                        let (c, kind) = judge_state(&sc, files, false);
                        *kinds.entry(format!("crash_state_{kind}")).or_insert(0) += 1;
                        if let Some(c) = c {
                            bad.push(format!("process death {what}: {c}"));
                        }
                    }
                    let (c, kind) = judge_state(&sc, &final_files, must_be_new);
                    *kinds.entry(format!("final_state_{kind}")).or_insert(0) += 1;
                    if let Some(c) = c {
                        bad.push(format!("after creation ended ({}): {c}", match returned { Some(true) => "Ok", Some(false) => "Err", None => "never returned" }));
                    }
                    *out2.lock().unwrap() = (bad, kinds);
                },
            );
            let _ = hooks.take();
            let (mut bad, kinds) = std::mem::take(&mut *out.lock().unwrap());
            if rep.outcome != Outcome::Completed {
                bad.push(format!("reading what the execution left on the disk ended {}", rep.outcome.class()));
            }
            let mut stats: BTreeMap<String, u64> = BTreeMap::new();
            for (k, v) in kinds {
                *stats.entry(k).or_insert(0) += v;
            }
            for (k, v) in fired {
                *stats.entry(format!("fault:{k}")).or_insert(0) += v;
            }
            *stats.entry("fault:process-death-at-output-op".into()).or_insert(0) += n_states;
            *stats.entry("output_operations".into()).or_insert(0) += ops;
            *stats.entry(match returned { Some(true) => "creation_returned_ok", Some(false) => "creation_returned_err", None => "creation_never_returned" }.into()).or_insert(0) += 1;
            (bad, stats)
        });
        Prepared {
            desc,
            knobs,
            body,
            record_events: false,
            hard_fault: sc.variant.is_hard(),
            one_cpu: false,
            post: Some(post),
            max_scheds: None,
        }
    }
    fn rule(&self) -> String {
        "works = BasicCreator creations (OneFile / TwoFiles / NoConcat x zstd, lz4, none; 1..9 contents with mixed hints so raw and compressed clusters race to the writer; 1..3 workers; tiny cluster limits; with no file, an older container of the same or of another packaging at the destination) x fault variant {crash states only, ENOSPC/EIO at a seeded output operation, partial write then error, benign short/Interrupted}; every work runs under several seeded schedules; at EVERY output I/O point the simulated disk is copied (what a process death there leaves behind) and every distinct copy plus the final state is judged: destination absent, or the old container byte for byte with its sibling files untouched, or a complete new container (independent layout scan, every produced file complete and verifying, every pack the entry point names present in the produced files, dump equal to the model); Ok means new. Non-trivial = a choice point where the running task was not continued; distinct = distinct (work, decision trace)".into()
    }
    fn real_vs_stub(&self) -> Value {
        crate::c08::C08.real_vs_stub()
    }
    fn assumptions(&self) -> Vec<String> {
        vec!["crash = process termination: the scratch directory as the kernel has it at the instant of an output operation; bytes still in user-space buffers are lost, nothing that was written is".into()]
    }
    fn pass_decides(&self) -> String {
        "all-or-nothing at the destination when several compression workers, the writer thread and the caller race: every crash state (copy of the simulated disk at each output operation) and the state left by an I/O error, a panic or a stall, under seeded schedules".into()
    }
    fn required_probes(&self, _tier: Tier) -> Vec<&'static str> {
        vec!["crash_state_new", "crash_state_old-kept", "crash_state_absent", "creation_returned_err", "backpressure_engaged"]
    }
}

fn file_tag(path: &str) -> String {
    Path::new(path).file_name().map(|f| f.to_string_lossy().to_string()).unwrap_or_default()
}
