//! C09: creation through `BasicCreator` is all-or-nothing at the destination path.
//! One child process per crash / I/O-error point; the parent inspects the scratch directory
//! after the child ended, however it ended.

use crate::hooks::{FHooks, IoPlan, IoRecord};
use crate::Args;
use serde_json::{json, Value};
use simcore::dump::{self, Dump, DumpSpec};
use simcore::gen::{self, Comp, ContentSpec, Flavor, Hint, Logical, Packaging, SchemaSpec, SrcKind, StoreKind};
use simcore::layout;
use simcore::prng::Rng;
use simcore::report::{self, Evidence};
use simcore::{proc, Tier};
use std::collections::BTreeMap;
use std::path::{Path, PathBuf};
use std::sync::Arc;
use verif_rt::io::{IoDecision, IoKind};

const NAME: &str = "out";

#[derive(Clone, Debug)]
struct Scenario {
    id: String,
    packaging: Packaging,
    comp: Comp,
    n: usize,
    preexisting: bool,
    /// one content comes from a SimReader (input-stream faults)
    sim_source: bool,
    /// a second content pack handed to finalize() as an "extra" pack in its own atomic file
    extra: bool,
    /// the older container at the destination was made with another packaging
    old_packaging: Option<Packaging>,
    seed: u64,
}

fn scenarios(seed: u64, tier: Tier) -> Vec<Scenario> {
    let mut out = vec![];
    let ns: &[usize] = match tier {
        Tier::Quick => &[1, 3],
        Tier::Thorough => &[1, 2, 4, 7],
    };
    let mut k = 0;
    for packaging in [Packaging::BasicOne, Packaging::BasicTwo, Packaging::BasicNoConcat] {
        for comp in [Comp::None, Comp::Zstd(3)] {
            for &n in ns {
                for preexisting in [false, true] {
                    // quick: old container only with the smallest size
                    if tier == Tier::Quick && preexisting && n != ns[0] {
                        continue;
                    }
                    out.push(Scenario {
                        id: format!(
                            "{}-{}-n{}-{}",
                            packaging.name(),
                            comp.name(),
                            n,
                            if preexisting { "old" } else { "fresh" }
                        ),
                        packaging,
                        comp,
                        n,
                        preexisting,
                        sim_source: false,
                        extra: false,
                        old_packaging: None,
                        seed: simcore::prng::hash_label(seed, "c09-scenario", k),
                    });
                    if preexisting && comp == Comp::None {
                        // the same, over an older container of a different packaging
                        let other = match packaging {
                            Packaging::BasicOne => Packaging::BasicTwo,
                            Packaging::BasicTwo => Packaging::BasicNoConcat,
                            _ => Packaging::BasicOne,
                        };
                        k += 1;
                        out.push(Scenario {
                            id: format!("{}-{}-n{}-old-{}", packaging.name(), comp.name(), n, other.name()),
                            packaging,
                            comp,
                            n,
                            preexisting,
                            sim_source: false,
                            extra: false,
                            old_packaging: Some(other),
                            seed: simcore::prng::hash_label(seed, "c09-scenario-x", k),
                        });
                    }
                    k += 1;
                }
            }
        }
        // the destination has a second name (a hard link: `current.jbk` / `v1.jbk` pairs, `cp -al`
        // snapshots): replacing it must still be one rename, never a rewrite of the shared inode
        out.push(Scenario {
            id: format!("{}-none-n1-old-hardlinked", packaging.name()),
            packaging,
            comp: Comp::None,
            n: 1,
            preexisting: true,
            sim_source: false,
            extra: false,
            old_packaging: None,
            seed: simcore::prng::hash_label(seed, "c09-scenario-hardlink", k),
        });
        k += 1;
        // the destination is a symbolic link to the previous container (`current.jbk -> store/v1.jbk`)
        out.push(Scenario {
            id: format!("{}-none-n1-old-symlinked", packaging.name()),
            packaging,
            comp: Comp::None,
            n: 1,
            preexisting: true,
            sim_source: false,
            extra: false,
            old_packaging: None,
            seed: simcore::prng::hash_label(seed, "c09-scenario-symlink", k),
        });
        k += 1;
        // ... or a symbolic link to a previous container that lives in another directory
        // (`pub/current.jbk -> ../store/v1.jbk`): the packs of the new container belong beside the
        // name the caller gave, which is where a reader that opens that name looks for them
        if packaging != Packaging::BasicOne || tier == Tier::Thorough {
            out.push(Scenario {
                id: format!("{}-none-n1-old-symlinked-elsewhere", packaging.name()),
                packaging,
                comp: Comp::None,
                n: 1,
                preexisting: true,
                sim_source: false,
                extra: false,
                old_packaging: None,
                seed: simcore::prng::hash_label(seed, "c09-scenario-symlink-elsewhere", k),
            });
            k += 1;
        }
        // input-stream faults
        out.push(Scenario {
            id: format!("{}-simsrc", packaging.name()),
            packaging,
            comp: Comp::Zstd(3),
            n: 2,
            preexisting: false,
            sim_source: true,
            extra: false,
            old_packaging: None,
            seed: simcore::prng::hash_label(seed, "c09-scenario-sim", k),
        });
        k += 1;
        // an extra content pack next to the main one
        if packaging != Packaging::BasicTwo || tier == Tier::Thorough {
            out.push(Scenario {
                id: format!("{}-extrapack", packaging.name()),
                packaging,
                comp: Comp::Zstd(3),
                n: 3,
                preexisting: false,
                sim_source: false,
                extra: true,
                old_packaging: None,
                seed: simcore::prng::hash_label(seed, "c09-scenario-extra", k),
            });
            k += 1;
        }
    }
    out
}

fn logical_for(s: &Scenario, old: bool) -> Logical {
    let mut rng = Rng::derive(s.seed, if old { "c09-old" } else { "c09-new" }, 0);
    let hint = if s.sim_source {
        Hint::Yes
    } else if s.comp == Comp::None || rng.chance(1, 2) {
        Hint::No
    } else {
        Hint::Yes
    };
    let n = if old { s.n + 1 } else { s.n };
    let contents = (0..n)
        .map(|i| {
            let len = rng.range(0, 90) as usize;
            let flavor = *rng.pick(&[Flavor::Constant, Flavor::Text, Flavor::Random]);
            let mut bytes = gen::gen_bytes(&mut rng, i, len, flavor);
            if old && !bytes.is_empty() {
                bytes[0] = b'O';
            }
            ContentSpec {
                bytes: Arc::new(bytes),
                hint,
                src: if s.sim_source && !old && i == 0 {
                    SrcKind::Sim
                } else {
                    SrcKind::Cursor
                },
                pack: if s.extra && !old { 1 + (i as u16 % 2) } else { 1 },
            }
        })
        .collect();
    Logical {
        comp: s.comp,
        packaging: if old { s.old_packaging.unwrap_or(s.packaging) } else { s.packaging },
        n_packs: if s.extra && !old { 2 } else { 1 },
        contents,
        schema: SchemaSpec {
            key_prefix: 1,
            store: StoreKind::Plain,
            variants: false,
            key_pad: 0,
        },
        dedup: false,
        aux_seed: rng.next_u64(),
        opts: Default::default(),
    }
}

#[derive(Clone, Debug, PartialEq)]
enum Inject {
    None,
    Io { k: u64, decision: IoDecision },
    Benign { seed: u64 },
    /// hard error from the simulated input stream at its j-th read call
    InputErr { call: u64 },
    /// hook-free fault source: RLIMIT_FSIZE = limit bytes for every output file of the child;
    /// the kernel kills the process (SIGXFSZ) or, with the signal ignored, fails the write (EFBIG)
    Fsize { limit: u64, ignore_signal: bool },
    /// environment fault: the creator runs as an unprivileged user in a destination directory it
    /// may not write to (no temporary file can be created there), while the existing destination
    /// file itself is writable
    ReadOnlyDir,
    /// the same environment, and on top of it a fault at the k-th output operation (should the
    /// creator find a way to write at all)
    ReadOnlyDirIo { k: u64, decision: IoDecision },
    /// the file size limit (as `Fsize`) only takes effect when the k-th output operation is
    /// reached: everything written before fits, what the creator does from there on does not
    FsizeFrom { k: u64, limit: u64, ignore_signal: bool },
    /// the simulator at the system-call boundary (LD_PRELOAD shim, no hook of the code under test
    /// involved): the process ends right before its k-th file-system changing system call (open
    /// for writing, write, copy_file_range, sendfile, ftruncate, rename, link, unlink ...), or in
    /// the middle of it (a write / copy that transfers half of its bytes)
    Sys { k: u64, mid: bool },
    /// the application's own progress callback panics when cluster `cluster` is handed to it
    /// (`written`: when it is reported written): a part of the process - a compression worker or
    /// the writer thread - dies in the middle of the creation
    CallbackPanic { cluster: u32, written: bool },
    /// (scenarios with an extra content pack) the extra pack's output file is named by a path
    /// relative to the process's working directory, which is not the destination directory. The
    /// creator may refuse that (however it does); it must not publish a container whose extra pack
    /// cannot be found
    RelativeExtraPath,
    /// (scenarios with an extra content pack) the extra pack lies in a sub-directory whose name
    /// makes its location relative to the destination longer than the 213 bytes a pack
    /// description holds. The creator may refuse; it must not publish a container whose recorded
    /// location does not lead to the pack
    DeepExtraPath,
}

impl Inject {
    fn encode(&self) -> String {
        match self {
            Inject::None => "none".into(),
            Inject::Io { k, decision } => format!(
                "io:{k}:{}",
                match decision {
                    IoDecision::Proceed => "proceed".to_string(),
                    IoDecision::Fail(e) => format!("fail:{e}"),
                    IoDecision::Interrupted => "intr".to_string(),
                    IoDecision::Short(n) => format!("short:{n}"),
                    IoDecision::PartialThenFail(n, e) => format!("partialfail:{n}:{e}"),
                    IoDecision::DieBefore => "diebefore".to_string(),
                    IoDecision::DieAfter(n) => format!("dieafter:{n}"),
                }
            ),
            Inject::Benign { seed } => format!("benign:{seed}"),
            Inject::InputErr { call } => format!("inputerr:{call}"),
            Inject::Fsize { limit, ignore_signal } => format!("fsize:{limit}:{}", if *ignore_signal { "efbig" } else { "kill" }),
            Inject::FsizeFrom { k, limit, ignore_signal } => format!("fsizefrom:{k}:{limit}:{}", if *ignore_signal { "efbig" } else { "kill" }),
            Inject::Sys { k, mid } => format!("sys:{k}:{}", if *mid { "mid" } else { "before" }),
            Inject::CallbackPanic { cluster, written } => format!("cbpanic:{cluster}:{}", if *written { "written" } else { "handled" }),
            Inject::RelativeExtraPath => "relextra".into(),
            Inject::DeepExtraPath => "deepextra".into(),
            Inject::ReadOnlyDir => "rodir".into(),
            Inject::ReadOnlyDirIo { k, decision } => {
                let inner = Inject::Io { k: *k, decision: *decision }.encode();
                format!("rodir+{inner}")
            }
        }
    }
    fn decode(s: &str) -> Option<Inject> {
        if let Some(inner) = s.strip_prefix("rodir+") {
            return match Inject::decode(inner)? {
                Inject::Io { k, decision } => Some(Inject::ReadOnlyDirIo { k, decision }),
                _ => None,
            };
        }
        let p: Vec<&str> = s.split(':').collect();
        Some(match p[0] {
            "none" => Inject::None,
            "rodir" => Inject::ReadOnlyDir,
            "relextra" => Inject::RelativeExtraPath,
            "deepextra" => Inject::DeepExtraPath,
            "cbpanic" => Inject::CallbackPanic { cluster: p[1].parse().ok()?, written: p[2] == "written" },
            "sys" => Inject::Sys { k: p[1].parse().ok()?, mid: p[2] == "mid" },
            "fsizefrom" => Inject::FsizeFrom { k: p[1].parse().ok()?, limit: p[2].parse().ok()?, ignore_signal: p[3] == "efbig" },
            "benign" => Inject::Benign { seed: p[1].parse().ok()? },
            "inputerr" => Inject::InputErr { call: p[1].parse().ok()? },
            "fsize" => Inject::Fsize { limit: p[1].parse().ok()?, ignore_signal: p[2] == "efbig" },
            "io" => {
                let k = p[1].parse().ok()?;
                let decision = match p[2] {
                    "fail" => IoDecision::Fail(p[3].parse().ok()?),
                    "intr" => IoDecision::Interrupted,
                    "short" => IoDecision::Short(p[3].parse().ok()?),
                    "partialfail" => IoDecision::PartialThenFail(p[3].parse().ok()?, p[4].parse().ok()?),
                    "diebefore" => IoDecision::DieBefore,
                    "dieafter" => IoDecision::DieAfter(p[3].parse().ok()?),
                    _ => return None,
                };
                Inject::Io { k, decision }
            }
            _ => return None,
        })
    }
    fn kind(&self) -> &'static str {
        match self {
            Inject::None => "none",
            Inject::Benign { .. } => "benign-short-or-interrupted",
            Inject::InputErr { .. } => "input-stream-error",
            Inject::Fsize { ignore_signal: false, .. } => "rlimit-fsize-kill",
            Inject::Fsize { ignore_signal: true, .. } => "rlimit-fsize-efbig",
            Inject::FsizeFrom { ignore_signal: false, .. } => "rlimit-fsize-from-an-operation-on-kill",
            Inject::FsizeFrom { ignore_signal: true, .. } => "rlimit-fsize-from-an-operation-on-efbig",
            Inject::Sys { mid: false, .. } => "die-before-system-call",
            Inject::Sys { mid: true, .. } => "die-in-the-middle-of-a-write-system-call",
            Inject::CallbackPanic { written: false, .. } => "application-callback-panics-in-a-worker-or-writer (cluster handled)",
            Inject::CallbackPanic { written: true, .. } => "application-callback-panics-in-the-writer (cluster written)",
            Inject::RelativeExtraPath => "extra-pack-named-relative-to-another-working-directory",
            Inject::DeepExtraPath => "extra-pack-location-longer-than-a-pack-description-holds",
            Inject::ReadOnlyDir => "destination-directory-not-writable",
            Inject::ReadOnlyDirIo { .. } => "destination-directory-not-writable+io-fault",
            Inject::Io { decision, .. } => match decision {
                IoDecision::Fail(_) => "io-error",
                IoDecision::Interrupted => "interrupted",
                IoDecision::Short(_) => "short-write",
                IoDecision::PartialThenFail(..) => "partial-write-then-error",
                IoDecision::DieBefore => "die-before-op",
                IoDecision::DieAfter(_) => "die-mid-or-after-op",
                IoDecision::Proceed => "none",
            },
        }
    }
    fn is_benign(&self) -> bool {
        matches!(
            self,
            Inject::None
                | Inject::Benign { .. }
                | Inject::Io {
                    decision: IoDecision::Interrupted | IoDecision::Short(_),
                    ..
                }
        )
    }
}

// ------------------------------------------------------------------------------------------
// child: run one creation under a plan

pub fn child_main(args: &Args) -> ! {
    // rest: scenario-json-file case_dir inject [old]
    let sc: Value = serde_json::from_str(&std::fs::read_to_string(&args.rest[0]).unwrap()).unwrap();
    let case_dir = PathBuf::from(&args.rest[1]);
    let inject = Inject::decode(&args.rest[2]).unwrap_or_else(|| simcore::harness_error("bad inject"));
    let old = args.rest.get(3).map(|s| s == "old").unwrap_or(false);
    let s = Scenario {
        id: sc["id"].as_str().unwrap().to_string(),
        packaging: match sc["packaging"].as_str().unwrap() {
            "basic-one" => Packaging::BasicOne,
            "basic-two" => Packaging::BasicTwo,
            _ => Packaging::BasicNoConcat,
        },
        comp: if sc["comp"].as_str().unwrap() == "none" {
            Comp::None
        } else {
            Comp::Zstd(3)
        },
        n: sc["n"].as_u64().unwrap() as usize,
        preexisting: sc["preexisting"].as_bool().unwrap(),
        sim_source: sc["sim_source"].as_bool().unwrap(),
        extra: sc["extra"].as_bool().unwrap_or(false),
        old_packaging: sc["old_packaging"].as_str().map(|p| match p {
            "basic-one" => Packaging::BasicOne,
            "basic-two" => Packaging::BasicTwo,
            _ => Packaging::BasicNoConcat,
        }),
        seed: sc["seed"].as_u64().unwrap(),
    };
    let logical = logical_for(&s, old);
    let hooks = FHooks::install();
    // one worker keeps the sequence of output operations deterministic; the input-stream scenarios
    // (whose faults are indexed by read call, not by output operation) run with three workers so
    // that "which worker saw the error" varies
    hooks.set_knob("creator_workers", if s.sim_source { 3 } else { 1 });
    simcore::osrand::reseed(simcore::prng::hash_label(s.seed, if old { "old" } else { "new" }, 0));
    let mut opts = gen::BuildOpts::default();
    opts.sim_cfg = gen::SimReaderCfg {
        short_pm: 300,
        intr_pm: 150,
        err_at_call: None,
    };
    match &inject {
        Inject::None => hooks.set_plan(Some(IoPlan::Record)),
        Inject::Io { k, decision } => hooks.set_plan(Some(IoPlan::At {
            k: *k,
            decision: *decision,
        })),
        Inject::Benign { seed } => hooks.set_plan(Some(IoPlan::Benign {
            seed: *seed,
            per_mille: 200,
        })),
        Inject::InputErr { call } => {
            hooks.set_plan(Some(IoPlan::Record));
            opts.sim_cfg.err_at_call = Some(*call);
        }
        Inject::Sys { .. } => hooks.set_plan(Some(IoPlan::Record)),
        Inject::CallbackPanic { cluster, written } => {
            hooks.set_plan(Some(IoPlan::Record));
            struct Bomb {
                cluster: u32,
                written: bool,
                fired: PathBuf,
            }
            impl jubako::creator::Progress for Bomb {
                fn handle_cluster(&self, idx: u32, _compressed: bool) {
                    if !self.written && idx == self.cluster {
                        let _ = std::fs::write(&self.fired, "callback");
                        panic!("the application's progress callback panics (cluster {idx} handled)");
                    }
                }
                fn handle_cluster_written(&self, idx: u32) {
                    if self.written && idx == self.cluster {
                        let _ = std::fs::write(&self.fired, "callback");
                        panic!("the application's progress callback panics (cluster {idx} written)");
                    }
                }
            }
            opts.progress = std::sync::Arc::new(Bomb { cluster: *cluster, written: *written, fired: case_dir.join("fired.txt") });
        }
        Inject::DeepExtraPath => hooks.set_plan(Some(IoPlan::Record)),
        Inject::RelativeExtraPath => {
            hooks.set_plan(Some(IoPlan::Record));
            std::env::set_current_dir(case_dir.parent().unwrap()).unwrap_or_else(|e| simcore::harness_error(&format!("C09: chdir: {e}")));
        }
        Inject::FsizeFrom { k, limit, ignore_signal } => {
            if *ignore_signal {
                unsafe {
                    libc::signal(libc::SIGXFSZ, libc::SIG_IGN);
                }
            }
            hooks.set_plan(Some(IoPlan::FsizeFrom { k: *k, limit: *limit }));
        }
        Inject::ReadOnlyDir | Inject::ReadOnlyDirIo { .. } => {
            match &inject {
                Inject::ReadOnlyDirIo { k, decision } => hooks.set_plan(Some(IoPlan::At {
                    k: *k,
                    decision: *decision,
                })),
                _ => hooks.set_plan(Some(IoPlan::Record)),
            }
            // what the harness itself needs in the directory exists beforehand
            let inputs = case_dir.join(format!("{NAME}.inputs"));
            let _ = std::fs::create_dir_all(&inputs);
            use std::os::unix::fs::PermissionsExt;
            let _ = std::fs::set_permissions(&inputs, std::fs::Permissions::from_mode(0o777));
            if let Ok(rd) = std::fs::read_dir(&case_dir) {
                for e in rd.flatten() {
                    if e.path().is_file() {
                        let _ = std::fs::set_permissions(e.path(), std::fs::Permissions::from_mode(0o666));
                    }
                }
            }
            let _ = std::fs::set_permissions(&case_dir, std::fs::Permissions::from_mode(0o555));
            // root ignores directory permissions: become an unprivileged user (for anybody else the
            // mode 0555 of the directory is enough)
            unsafe {
                if libc::geteuid() == 0 && (libc::setgid(65534) != 0 || libc::setuid(65534) != 0) {
                    simcore::harness_error("C09: cannot drop privileges for the read-only-directory case");
                }
            }
        }
        Inject::Fsize { limit, ignore_signal } => {
            hooks.set_plan(Some(IoPlan::Record));
            unsafe {
                if *ignore_signal {
                    libc::signal(libc::SIGXFSZ, libc::SIG_IGN);
                }
                let lim = libc::rlimit {
                    rlim_cur: *limit,
                    rlim_max: *limit,
                };
                libc::setrlimit(libc::RLIMIT_FSIZE, &lim);
            }
        }
    }
    crate::hooks::set_fired_file(Some(case_dir.join("fired.txt")));
    let mut logical = logical;
    logical.opts.extra_pack_paths_relative_to_cwd = inject == Inject::RelativeExtraPath;
    logical.opts.extra_packs_in_long_subdir = inject == Inject::DeepExtraPath;
    let r = gen::build(&logical, &case_dir, NAME, &opts);
    // normal return path: write the op log and what fired
    let st = hooks.st.lock().unwrap();
    let log: Vec<Value> = st
        .io_log
        .iter()
        .map(|r| json!([r.kind.as_str(), file_tag(&r.file), r.len]))
        .collect();
    let stats = &opts.sim_stats;
    use std::sync::atomic::Ordering::Relaxed;
    let _ = std::fs::write(
        case_dir.join("oplog.json"),
        json!({"ops": log, "benign_fired": st.benign_fired,
               "sim_reads": stats.calls.load(Relaxed), "sim_short": stats.short.load(Relaxed),
               "sim_intr": stats.intr.load(Relaxed), "sim_err": stats.err.load(Relaxed),
               "result": match &r { Ok(_) => "ok".to_string(), Err(e) => format!("err: {e}") }})
        .to_string(),
    );
    std::process::exit(if r.is_ok() { 0 } else { 3 })
}

fn file_tag(path: &str) -> String {
    Path::new(path)
        .file_name()
        .map(|f| f.to_string_lossy().to_string())
        .unwrap_or_default()
}

// ------------------------------------------------------------------------------------------
// parent side

struct Reference {
    /// file-system changing system calls of the fault-free run: (name, is a data transfer)
    sys_calls: Vec<(String, bool)>,
    files: Vec<(String, Vec<u8>)>,
    dump: Dump,
    spec: DumpSpec,
    ops: Vec<(String, String, usize)>,
    sim_reads: u64,
}

fn run_child(sc_file: &Path, case_dir: &Path, inject: &Inject, old: bool, watchdog_ms: u64) -> String {
    let exe = std::env::current_exe().unwrap();
    let mut cmd = std::process::Command::new(exe);
    cmd.arg("child-c09")
        .arg(sc_file)
        .arg(case_dir)
        .arg(inject.encode());
    if old {
        cmd.arg("old");
    }
    if let Inject::Sys { k, mid } = inject {
        cmd.env("LD_PRELOAD", preload_path())
            .env(if *mid { "VERIF_SYS_DIE_MID" } else { "VERIF_SYS_DIE_BEFORE" }, k.to_string());
    }
    if let Ok(log) = std::env::var("VERIF_SYS_LOG_NEXT") {
        // (reference run: count and list the file-system changing system calls)
        cmd.env("LD_PRELOAD", preload_path()).env("VERIF_SYS_LOG", log);
    }
    let mut child = cmd
        .stdin(std::process::Stdio::null())
        .stdout(std::process::Stdio::null())
        .stderr(std::process::Stdio::null())
        .spawn()
        .expect("spawn c09 child");
    let start = std::time::Instant::now();
    loop {
        match child.try_wait() {
            Ok(Some(st)) => {
                use std::os::unix::process::ExitStatusExt;
                return match (st.code(), st.signal()) {
                    (Some(0), _) => "ok".into(),
                    (Some(3), _) => "err".into(),
                    (Some(86), _) => "died".into(),
                    (Some(101), _) => "panic".into(),
                    (Some(c), _) => format!("exit{c}"),
                    (None, Some(s)) => format!("signal{s}"),
                    _ => "unknown".into(),
                };
            }
            Ok(None) => {
                if start.elapsed().as_millis() as u64 > watchdog_ms {
                    let _ = child.kill();
                    let _ = child.wait();
                    return "hung-killed".into();
                }
                std::thread::sleep(std::time::Duration::from_micros(300));
            }
            Err(_) => return "wait-error".into(),
        }
    }
}

/// The system-call shim, built next to this executable by `cargo build -p verif-preload`.
fn preload_path() -> PathBuf {
    let exe = std::env::current_exe().expect("current_exe");
    let p = exe.parent().unwrap().join("libverif_preload.so");
    if !p.exists() {
        simcore::harness_error(&format!("{} is missing (cargo build --release -p verif-preload)", p.display()));
    }
    p
}

fn read_dir_files(dir: &Path) -> Vec<(String, Vec<u8>)> {
    let mut v = vec![];
    if let Ok(rd) = std::fs::read_dir(dir) {
        for e in rd.flatten() {
            let p = e.path();
            if p.is_file() {
                let name = p.file_name().unwrap().to_string_lossy().to_string();
                if name == "oplog.json" || name == "fired.txt" {
                    continue;
                }
                v.push((name, std::fs::read(&p).unwrap_or_default()));
            }
        }
    }
    v.sort();
    v
}

fn make_reference(s: &Scenario, sc_file: &Path, dir: &Path, old: bool) -> Reference {
    let _ = std::fs::remove_dir_all(dir);
    std::fs::create_dir_all(dir).unwrap();
    let sys_log = dir.parent().unwrap().join(format!("syslog-{}", if old { "old" } else { "new" }));
    let _ = std::fs::remove_file(&sys_log);
    std::env::set_var("VERIF_SYS_LOG_NEXT", &sys_log);
    let st = run_child(sc_file, dir, &Inject::None, old, 30_000);
    std::env::remove_var("VERIF_SYS_LOG_NEXT");
    if st != "ok" {
        simcore::harness_error(&format!("C09 reference run of {} ended {st}", s.id));
    }
    let sys_calls: Vec<(String, bool)> = std::fs::read_to_string(&sys_log)
        .unwrap_or_default()
        .lines()
        .filter_map(|l| l.split_whitespace().nth(1).map(|w| w.to_string()))
        .map(|w| {
            let data = matches!(w.as_str(), "write" | "pwrite" | "writev" | "copy_file_range" | "sendfile");
            (w, data)
        })
        .collect();
    let _ = std::fs::remove_file(&sys_log);
    if sys_calls.is_empty() {
        simcore::harness_error("C09: the system-call shim recorded nothing in the reference run");
    }
    let oplog: Value =
        serde_json::from_str(&std::fs::read_to_string(dir.join("oplog.json")).unwrap()).unwrap();
    let ops = oplog["ops"]
        .as_array()
        .unwrap()
        .iter()
        .map(|o| {
            (
                o[0].as_str().unwrap().to_string(),
                o[1].as_str().unwrap().to_string(),
                o[2].as_u64().unwrap() as usize,
            )
        })
        .collect();
    let logical = logical_for(s, old);
    let model = {
        let mut m = gen::plan_model(&logical);
        // entries / indexes as the builder records them
        let n = m.contents.len() as u32;
        m.indexes = vec![("all".into(), 0, n)];
        if n >= 3 {
            m.indexes.push(("window".into(), 1, n - 2));
        }
        m
    };
    let spec = DumpSpec::for_model(&model);
    let entry = dir.join(format!("{NAME}.jbk"));
    let d = dump::dump_container(&entry, &spec);
    if d.get("open") != Some(&dump::Leaf::Val("ok".into()))
        || d.get("check") != Some(&dump::Leaf::Val("true".into()))
    {
        simcore::harness_error(&format!(
            "C09 reference container of {} does not open and verify: {:?} {:?}",
            s.id,
            d.get("open"),
            d.get("check")
        ));
    }
    let files = read_dir_files(dir);
    for (name, bytes) in &files {
        if let Err(e) = layout::complete(bytes) {
            simcore::harness_error(&format!("C09 reference file {name} of {} is not complete: {e}", s.id));
        }
    }
    Reference {
        sys_calls,
        files,
        dump: d,
        spec,
        ops,
        sim_reads: oplog["sim_reads"].as_u64().unwrap_or(0),
    }
}

fn injections(s: &Scenario, r: &Reference, tier: Tier) -> Vec<Inject> {
    let mut out = vec![];
    let mut rng = Rng::derive(s.seed, "c09-injections", 0);
    // a part of the process dies: the application's progress callback panics at cluster k (more
    // indices than any scenario has clusters: the later ones never fire)
    for cluster in 0..6 {
        for written in [false, true] {
            out.push(Inject::CallbackPanic { cluster, written });
        }
    }
    if s.extra {
        out.push(Inject::RelativeExtraPath);
        out.push(Inject::DeepExtraPath);
    }
    for (k, (kind, _file, len)) in r.ops.iter().enumerate() {
        let k = k as u64;
        out.push(Inject::Io {
            k,
            decision: IoDecision::DieBefore,
        });
        out.push(Inject::Io {
            k,
            decision: IoDecision::Fail(28), // ENOSPC
        });
        if kind == "write" {
            // every byte offset of every write is a crash point (the hard-link scenarios, which
            // repeat a scenario that is enumerated in full, take one offset per write)
            let offsets: Vec<usize> = if s.id.contains("hardlinked") || s.id.contains("symlinked") {
                vec![(*len).max(1) / 2 + 1]
            } else if tier == Tier::Quick && *len > 48 && (s.preexisting || s.n > 1) {
                // quick tier: the smallest fresh scenarios are enumerated byte by byte, the others
                // take the ends of each long write and a seeded sample of its middle
                let mut v: Vec<usize> = (1..=6).chain(*len - 5..=*len).collect();
                for _ in 0..14 {
                    v.push(rng.range(7, *len as u64 - 6) as usize);
                }
                v.sort();
                v.dedup();
                v
            } else {
                (1..=*len).collect()
            };
            for b in offsets.into_iter().filter(|b| *b <= *len) {
                out.push(Inject::Io {
                    k,
                    decision: IoDecision::DieAfter(b),
                });
            }
            let n_partial = if tier == Tier::Quick { 2 } else { 6 };
            for _ in 0..n_partial.min(*len) {
                out.push(Inject::Io {
                    k,
                    decision: IoDecision::PartialThenFail(rng.range(0, *len as u64) as usize, 5),
                });
            }
            if *len > 1 {
                out.push(Inject::Io {
                    k,
                    decision: IoDecision::Short(rng.range(1, *len as u64 - 1) as usize),
                });
            }
            out.push(Inject::Io {
                k,
                decision: IoDecision::Interrupted,
            });
        }
        if kind == "read" {
            out.push(Inject::Io {
                k,
                decision: IoDecision::Interrupted,
            });
            if *len > 1 {
                out.push(Inject::Io {
                    k,
                    decision: IoDecision::Short(rng.range(1, *len as u64 - 1) as usize),
                });
            }
        }
        if kind == "persist" || kind == "persisted" {
            out.push(Inject::Io {
                k,
                decision: IoDecision::DieAfter(0),
            });
        }
    }
    // hook-free cross-check: the kernel's file size limit as fault source, every limit up to the
    // largest output file (strided in the quick tier), killing and failing variants
    if (!s.preexisting || s.id.contains("hardlinked") || s.id.contains("symlinked")) && !s.sim_source {
        let largest = r.files.iter().map(|(_, b)| b.len() as u64).max().unwrap_or(0);
        let stride = if tier == Tier::Quick { 13 } else { 1 };
        let mut l = 0;
        while l <= largest {
            out.push(Inject::Fsize { limit: l, ignore_signal: false });
            out.push(Inject::Fsize { limit: l, ignore_signal: true });
            l += stride;
        }
    }
    // system-call level crash points (no hook involved): before every file-system changing call
    // and in the middle of every data transfer. Quick tier: the scenarios over an older container
    // and those with an extra pack; thorough: all
    if tier == Tier::Thorough || s.preexisting || s.extra {
        for (k, (_, data)) in r.sys_calls.iter().enumerate() {
            out.push(Inject::Sys { k: k as u64, mid: false });
            if *data {
                out.push(Inject::Sys { k: k as u64, mid: true });
            }
        }
        out.push(Inject::Sys { k: r.sys_calls.len() as u64, mid: false });
    }
    // the quota is reached exactly when a file is about to be published (or right after)
    for (k, (kind, file, _)) in r.ops.iter().enumerate() {
        if kind == "persist" || kind == "persisted" {
            let size = r.files.iter().find(|(n, _)| n == file).map(|(_, b)| b.len() as u64).unwrap_or(64);
            // at the operation itself, and at each of the few operations that precede it (the
            // last writes and flushes of the work file)
            for back in 0..5usize {
                if back > k {
                    break;
                }
                for limit in [0, size / 2] {
                    for ignore_signal in [false, true] {
                        out.push(Inject::FsizeFrom { k: (k - back) as u64, limit, ignore_signal });
                    }
                }
            }
        }
    }
    if s.preexisting && !s.sim_source {
        out.push(Inject::ReadOnlyDir);
        for k in 0..r.ops.len() as u64 {
            out.push(Inject::ReadOnlyDirIo {
                k,
                decision: if k % 2 == 0 { IoDecision::DieBefore } else { IoDecision::Fail(28) },
            });
        }
    }
    let n_benign = if tier == Tier::Quick { 6 } else { 40 };
    for j in 0..n_benign {
        out.push(Inject::Benign {
            seed: simcore::prng::hash_label(s.seed, "benign", j),
        });
    }
    if s.sim_source {
        for call in 0..r.sim_reads + 1 {
            out.push(Inject::InputErr { call });
        }
    }
    out
}

fn judge(
    s: &Scenario,
    inject: &Inject,
    child_status: &str,
    case_dir: &Path,
    new_ref: &Reference,
    old_ref: Option<&Reference>,
) -> (Option<String>, &'static str) {
    let dest = case_dir.join(format!("{NAME}.jbk"));
    let dest_bytes = std::fs::read(&dest).ok();
    let must_be_new = child_status == "ok";
    if inject.is_benign() && child_status != "ok" {
        return (
            Some(format!("benign fault {} made creation end '{child_status}'", inject.kind())),
            "bad",
        );
    }
    let Some(dest_bytes) = dest_bytes else {
        if must_be_new {
            return (Some("creator returned Ok but the destination does not exist".into()), "bad");
        }
        return (None, "absent");
    };
    if let Some(old) = old_ref {
        let old_dest = old.files.iter().find(|(n, _)| *n == format!("{NAME}.jbk")).unwrap();
        if dest_bytes == old_dest.1 {
            if must_be_new {
                return (
                    Some("creator returned Ok but the destination still holds the old container".into()),
                    "bad",
                );
            }
            // the old entry point is still there: files of the old container that the new creation
            // does not produce itself must not have been touched
            let produced: Vec<String> = {
                let mut v: Vec<String> = gen::expected_files(s.packaging, case_dir, NAME)
                    .iter()
                    .map(|p| p.file_name().unwrap().to_string_lossy().to_string())
                    .collect();
                if s.extra {
                    v.push(format!("{NAME}.x2.jbkc"));
                }
                v
            };
            for (name, bytes) in &old.files {
                if produced.contains(name) {
                    // a pack file of the old container under a name the new creation also
                    // produces: the old file or a complete new one (each arrives by one rename) -
                    // never nothing, never a part of a file, while the old entry point refers to it
                    if *name != format!("{NAME}.jbk") {
                        match std::fs::read(case_dir.join(name)) {
                            Ok(b) if b == *bytes => {}
                            Ok(b) => {
                                if let Err(e) = layout::complete(&b) {
                                    return (
                                        Some(format!("the old container is still at the destination but the pack file {name} beside it is neither the old one nor a complete new one: {e}")),
                                        "bad",
                                    );
                                }
                            }
                            Err(_) => {
                                return (
                                    Some(format!("the old container is still at the destination but its pack file {name} is gone")),
                                    "bad",
                                )
                            }
                        }
                    }
                    continue;
                }
                match std::fs::read(case_dir.join(name)) {
                    Ok(b) if b == *bytes => {}
                    Ok(_) => {
                        return (
                            Some(format!("the old container is still at the destination but its file {name}, which the new creation does not produce, was modified")),
                            "bad",
                        )
                    }
                    Err(_) => {
                        return (
                            Some(format!("the old container is still at the destination but its file {name}, which the new creation does not produce, is gone")),
                            "bad",
                        )
                    }
                }
            }
            return (None, "old-kept");
        }
    }
    // the destination must be the NEW, complete container
    if let Err(e) = layout::complete(&dest_bytes) {
        return (Some(format!("destination exists but is not a complete file: {e}")), "bad");
    }
    // every file the packaging is expected to produce must be there and complete
    let mut expected = gen::expected_files(s.packaging, case_dir, NAME);
    if s.extra {
        expected.push(case_dir.join(format!("{NAME}.x2.jbkc")));
    }
    for p in expected {
        let name = p.file_name().unwrap().to_string_lossy().to_string();
        let Ok(bytes) = std::fs::read(&p) else {
            return (
                Some(format!("entry point exists but the pack file {name} it refers to does not")),
                "bad",
            );
        };
        if let Err(e) = layout::complete(&bytes) {
            return (Some(format!("entry point exists but pack file {name} is incomplete: {e}")), "bad");
        }
        match jubako::tools::open_pack(&p).and_then(|cp| cp.check()) {
            Ok(true) => {}
            other => {
                return (
                    Some(format!("pack file {name} does not open and verify: {:?}", other.map_err(|e| dump::err_class(&e)))),
                    "bad",
                )
            }
        }
        if old_ref.is_some() {
            // with an old container around, the pack file next to a new entry point must be the new one
            let new_bytes = new_ref.files.iter().find(|(n, _)| *n == name).map(|(_, b)| b);
            if new_bytes.map(|b| b.len()) != Some(bytes.len()) {
                return (
                    Some(format!("new entry point next to a pack file {name} of a different (old?) container")),
                    "bad",
                );
            }
        }
    }
    let d = dump::dump_container(&dest, &new_ref.spec);
    if d != new_ref.dump {
        let diffs = dump::structural_diff(&new_ref.dump, &d);
        return (
            Some(format!(
                "destination opens but its logical dump differs from the fault-free container: {}",
                diffs.first().cloned().unwrap_or_else(|| "check leaf".into())
            )),
            "bad",
        );
    }
    let identical = new_ref
        .files
        .iter()
        .find(|(n, _)| *n == format!("{NAME}.jbk"))
        .map(|(_, b)| *b == dest_bytes)
        .unwrap_or(false);
    (None, if identical { "new-identical" } else { "new-equivalent" })
}

pub fn worker_main(args: &Args, w: usize, n: usize) -> ! {
    let scratch = simcore::Scratch::new(&format!("C09-w{w}"));
    let only = std::env::var("VERIF_ONLY_IMAGE").ok();
    for (si, s) in scenarios(args.seed, args.tier).iter().enumerate() {
        if let Some(o) = &only {
            if !s.id.contains(o.as_str()) {
                continue;
            }
        }
        let sdir = scratch.sub(&format!("s{si}"));
        let sc_file = sdir.join("scenario.json");
        std::fs::write(
            &sc_file,
            json!({"id": s.id, "packaging": s.packaging.name(), "comp": if s.comp == Comp::None {"none"} else {"zstd"},
                   "n": s.n, "preexisting": s.preexisting, "sim_source": s.sim_source, "extra": s.extra, "old_packaging": s.old_packaging.map(|p| p.name()), "seed": s.seed})
            .to_string(),
        )
        .unwrap();
        let new_ref = make_reference(s, &sc_file, &sdir.join("ref-new"), false);
        // determinism: a second fault-free run must perform the same operations and produce the same bytes
        let again = make_reference(s, &sc_file, &sdir.join("ref-new2"), false);
        if again.ops != new_ref.ops || again.files != new_ref.files {
            simcore::harness_error(&format!("C09 scenario {}: two fault-free runs differ (nondeterministic creation)", s.id));
        }
        let old_ref = if s.preexisting {
            Some(make_reference(s, &sc_file, &sdir.join("ref-old"), true))
        } else {
            None
        };
        let injs = injections(s, &new_ref, args.tier);
        let total = injs.len() as u64;
        println!(
            "{}",
            json!({"t":"scenario","si":si,"id":s.id,"ops":new_ref.ops.len(),"cases":total,
                   "files": new_ref.files.iter().map(|(n,b)| json!([n, b.len()])).collect::<Vec<_>>(),
                   "writes": new_ref.ops.iter().filter(|o| o.0=="write").count(),
                   "bytes_written": new_ref.ops.iter().filter(|o| o.0=="write").map(|o| o.2).sum::<usize>()})
        );
        let lo = total * w as u64 / n as u64;
        let hi = total * (w as u64 + 1) / n as u64;
        for i in lo..hi {
            let inject = &injs[i as usize];
            let case_dir = sdir.join(format!("case{i}"));
            let _ = std::fs::remove_dir_all(&case_dir);
            std::fs::create_dir_all(&case_dir).unwrap();
            if let Some(old) = &old_ref {
                for (name, bytes) in &old.files {
                    std::fs::write(case_dir.join(name), bytes).unwrap();
                }
                if s.id.contains("hardlinked") {
                    let _ = std::fs::hard_link(case_dir.join(format!("{NAME}.jbk")), case_dir.join(format!("{NAME}.jbk.other-name")));
                }
                if s.id.contains("symlinked-elsewhere") {
                    let _ = std::fs::create_dir_all(case_dir.join("store"));
                    let stored = case_dir.join("store").join(format!("v1-{NAME}.jbk"));
                    let _ = std::fs::rename(case_dir.join(format!("{NAME}.jbk")), &stored);
                    let _ = std::os::unix::fs::symlink(format!("store/v1-{NAME}.jbk"), case_dir.join(format!("{NAME}.jbk")));
                } else if s.id.contains("symlinked") {
                    let stored = case_dir.join(format!("stored-{NAME}.jbk"));
                    let _ = std::fs::rename(case_dir.join(format!("{NAME}.jbk")), &stored);
                    let _ = std::os::unix::fs::symlink(format!("stored-{NAME}.jbk"), case_dir.join(format!("{NAME}.jbk")));
                }
            }
            let status = run_child(&sc_file, &case_dir, inject, false, 20_000);
            if matches!(inject, Inject::ReadOnlyDir | Inject::ReadOnlyDirIo { .. }) {
                // the child took the write permission off the directory
                use std::os::unix::fs::PermissionsExt;
                let _ = std::fs::set_permissions(&case_dir, std::fs::Permissions::from_mode(0o755));
            }
            let fired = std::fs::read_to_string(case_dir.join("fired.txt")).ok();
            let oplog: Option<Value> = std::fs::read_to_string(case_dir.join("oplog.json"))
                .ok()
                .and_then(|s| serde_json::from_str(&s).ok());
            let benign_fired = oplog.as_ref().and_then(|o| o["benign_fired"].as_u64()).unwrap_or(0);
            let sim_err = oplog.as_ref().and_then(|o| o["sim_err"].as_u64()).unwrap_or(0);
            let did_fire = match inject {
                Inject::Io { .. } => fired.is_some(),
                Inject::Benign { .. } => benign_fired > 0,
                Inject::InputErr { .. } => sim_err > 0,
                // the limit bit if the creation did not end normally
                Inject::Fsize { .. } => status != "ok",
                // the directory refused the creator's temporary file if creation did not succeed
                // armed when the operation was reached (it bites only a creator that still writes)
                Inject::FsizeFrom { .. } => true,
                Inject::Sys { .. } => status == "died",
                Inject::CallbackPanic { .. } => fired.is_some(),
                Inject::RelativeExtraPath | Inject::DeepExtraPath => true,
                Inject::ReadOnlyDir => status != "ok",
                // fired = the armed operation was reached although the directory is not writable
                Inject::ReadOnlyDirIo { .. } => fired.is_some(),
                Inject::None => false,
            };
            let (violation, state) = judge(s, inject, &status, &case_dir, &new_ref, old_ref.as_ref());
            let leftovers = read_dir_files(&case_dir)
                .iter()
                .filter(|(n, _)| n.starts_with(".tmp"))
                .count();
            println!(
                "{}",
                json!({"t":"case","si":si,"scenario":s.id,"i":i,"inject":inject.encode(),"kind":inject.kind(),
                       "status":status,"fired":did_fire,"fired_at":fired,"state":state,"violation":violation})
            );
            // whether a temporary file is still around when a failing creator process exits depends on
            // real thread timing at exit: reported as a statistic, kept out of the deterministic record
            if leftovers > 0 {
                println!("{}", json!({"t":"stat","leftover_tmp":leftovers}));
            }
            let _ = std::fs::remove_dir_all(&case_dir);
        }
        let _ = std::fs::remove_dir_all(&sdir);
    }
    proc::flush_stdout();
    drop(scratch);
    std::process::exit(0)
}

pub fn parent_main(args: &Args) -> ! {
    let id = "C09";
    let mut ev = Evidence::new(id, args.tier.name(), args.seed, "fault_enumeration");
    let known = report::load_known_findings();
    let n = proc::n_workers();
    let mut wargs: Vec<String> = vec![
        "c09".into(),
        "--tier".into(),
        args.tier.name().into(),
        "--seed".into(),
        args.seed.to_string(),
    ];
    wargs.extend(args.rest.iter().cloned());
    let outs = proc::fan_out(n, &wargs);
    for o in &outs {
        if !o.ok {
            simcore::harness_error(&format!("worker {} failed: {}", o.index, o.status));
        }
    }
    let mut leftover = 0u64;
    let mut scen: BTreeMap<u64, Value> = BTreeMap::new();
    let mut recs: Vec<Value> = vec![];
    for o in outs {
        for line in o.lines {
            let Ok(v) = serde_json::from_str::<Value>(&line) else { continue };
            if v["t"] == "scenario" {
                scen.entry(v["si"].as_u64().unwrap()).or_insert(v);
            } else if v["t"] == "case" {
                recs.push(v);
            } else if v["t"] == "stat" {
                leftover += v["leftover_tmp"].as_u64().unwrap_or(0);
            }
        }
    }
    recs.sort_by_key(|r| (r["si"].as_u64().unwrap_or(0), r["i"].as_u64().unwrap_or(0)));
    let run_digest = report::digest_records(recs.iter());
    println!("DIGEST {id} {run_digest}");
    let mut states: BTreeMap<String, u64> = BTreeMap::new();
    let mut statuses: BTreeMap<String, u64> = BTreeMap::new();
    let mut violations: Vec<(String, Value)> = vec![];
    let mut known_hits: BTreeMap<String, (u64, String)> = BTreeMap::new();
    for r in &recs {
        ev.evaluations += 1;
        let fired = r["fired"].as_bool().unwrap_or(false);
        let kind = r["kind"].as_str().unwrap_or("?");
        if fired {
            ev.fired(kind, 1);
            ev.distinct.insert(simcore::prng::hash_label(
                0,
                &format!("{}|{}", r["scenario"], r["inject"]),
                0,
            ));
        }
        *states.entry(r["state"].as_str().unwrap_or("?").to_string()).or_insert(0) += 1;
        *statuses.entry(r["status"].as_str().unwrap_or("?").to_string()).or_insert(0) += 1;
        if ev.evaluations % 4999 == 1 {
            ev.sample(r.clone());
        }
        if let Some(v) = r["violation"].as_str() {
            let what: String = v.chars().map(|c| if c.is_ascii_digit() { 'N' } else { c }).collect();
            let packaging = r["scenario"].as_str().unwrap_or("").split('-').take(2).collect::<Vec<_>>().join("-");
            let sig = format!("C09|{packaging}|{kind}|{what}");
            match report::match_known(&known, id, &sig) {
                Some(k) => {
                    known_hits.entry(k.id.clone()).or_insert((0, k.what.clone())).0 += 1;
                }
                None => violations.push((sig, r.clone())),
            }
        }
    }
    for (kid, (count, what)) in &known_hits {
        println!("KNOWN-FINDING: property={id} {kid}: {what} ({count} cases this run)");
    }
    ev.rule = "scenarios = BasicCreator x {OneFile, TwoFiles, NoConcat} x {none, zstd} x content counts x {no file, an older complete container at the destination}, plus one scenario per packaging with a simulated input stream; a fault-free child records the list of output I/O points (create, seek, write, flush, read, persist, persisted); cases = for every point: die before, ENOSPC; for every write: die after b bytes for EVERY byte offset b, partial write then EIO, short write, Interrupted; die between rename and return; seeded benign perturbation runs; hard input-stream error at every read call. One child process per case; non-trivial = the armed fault actually fired; distinct = distinct (scenario, fault)".into();
    ev.exhaustive = Some(true);
    ev.extra.insert("scenarios".into(), json!(scen.values().collect::<Vec<_>>()));
    ev.extra.insert("destination_states".into(), json!(states));
    ev.extra.insert("child_endings".into(), json!(statuses));
    ev.extra.insert("leftover_temp_files".into(), json!(leftover));
    ev.extra.insert("workers".into(), json!(n));
    if let Ok(path) = std::env::var("VERIF_C09T_SUMMARY") {
        if let Ok(text) = std::fs::read_to_string(&path) {
            if let Ok(v) = serde_json::from_str::<Value>(&text) {
                ev.extra.insert("t_flavour_pass".into(), v);
            }
        }
    }
    ev.extra.insert("run_digest".into(), json!(run_digest));
    ev.extra.insert(
        "real_vs_stub".into(),
        json!({"real": ["BasicCreator, ContentPackCreator threads, DirectoryPackCreator, tempfile rename", "kernel file system (tmpfs) as the model of what survives process death"],
               "simulated": ["every output I/O point of AtomicOutFile (fault / short / death decided by the plan)", "input stream of one content (SimReader)", "OS randomness (seeded)"],
               "stub": []}),
    );
    ev.assumptions.push("crash = process termination (not power loss): the kernel file system state after the child ended is exactly what survives".into());
    ev.assumptions.push("creation with one compression worker and homogeneous hints performs a deterministic sequence of output operations (asserted: two fault-free runs must agree, else harness error)".into());
    ev.assumptions.push("an old entry point next to a newer COMPLETE pack file is accepted as 'still holds the previous complete file' (identity of packs by uuid is C11's subject); next to a missing or partial pack file it is not".into());
    ev.violations = violations.len() as u64;
    let mut seen = std::collections::BTreeSet::new();
    for (sig, r) in &violations {
        if !seen.insert(sig.clone()) || seen.len() > 10 {
            continue;
        }
        let path = report::write_replay(
            id,
            args.seed,
            &format!("{}-{}", r["scenario"].as_str().unwrap_or(""), r["inject"].as_str().unwrap_or("")),
            json!({"property": id, "seed": args.seed, "tier": args.tier.name(), "scenario": r["scenario"],
                   "inject": r["inject"], "signature": sig, "detail": r}),
        );
        println!("VIOLATION property={id} replay={}", path.display());
        eprintln!("  {sig}");
    }
    if ev.distinct.len() < 2 {
        simcore::harness_error("fewer than 2 faults fired: nothing was tested");
    }
    ev.write().expect("write evidence");
    println!(
        "{id}: {} cases, {} fired, states {:?}, {} new violations, {:.1}s",
        ev.evaluations,
        ev.distinct.len(),
        states,
        violations.len(),
        ev.wall_s()
    );
    std::process::exit(if violations.is_empty() { 0 } else { 1 })
}

pub fn replay_main(args: &Args, file: &str) -> ! {
    let v: Value = serde_json::from_str(&std::fs::read_to_string(file).unwrap_or_else(|e| {
        simcore::harness_error(&format!("cannot read replay file: {e}"))
    }))
    .unwrap_or_else(|e| simcore::harness_error(&format!("replay file does not parse: {e}")));
    let seed = v["seed"].as_u64().unwrap();
    let tier = Tier::parse(v["tier"].as_str().unwrap()).unwrap();
    let sid = v["scenario"].as_str().unwrap();
    let inject = Inject::decode(v["inject"].as_str().unwrap()).unwrap();
    let s = scenarios(seed, tier)
        .into_iter()
        .find(|s| s.id == sid)
        .unwrap_or_else(|| simcore::harness_error("replay: unknown scenario"));
    let scratch = simcore::Scratch::new("C09-replay");
    let sdir = scratch.sub("s");
    let sc_file = sdir.join("scenario.json");
    std::fs::write(
        &sc_file,
        json!({"id": s.id, "packaging": s.packaging.name(), "comp": if s.comp == Comp::None {"none"} else {"zstd"},
               "n": s.n, "preexisting": s.preexisting, "sim_source": s.sim_source, "extra": s.extra, "old_packaging": s.old_packaging.map(|p| p.name()), "seed": s.seed})
        .to_string(),
    )
    .unwrap();
    let new_ref = make_reference(&s, &sc_file, &sdir.join("ref-new"), false);
    let old_ref = if s.preexisting {
        Some(make_reference(&s, &sc_file, &sdir.join("ref-old"), true))
    } else {
        None
    };
    let case_dir = sdir.join("case");
    std::fs::create_dir_all(&case_dir).unwrap();
    if let Some(old) = &old_ref {
        for (name, bytes) in &old.files {
            std::fs::write(case_dir.join(name), bytes).unwrap();
        }
        if s.id.contains("hardlinked") {
            let _ = std::fs::hard_link(case_dir.join(format!("{NAME}.jbk")), case_dir.join(format!("{NAME}.jbk.other-name")));
        }
        if s.id.contains("symlinked-elsewhere") {
            let _ = std::fs::create_dir_all(case_dir.join("store"));
            let stored = case_dir.join("store").join(format!("v1-{NAME}.jbk"));
            let _ = std::fs::rename(case_dir.join(format!("{NAME}.jbk")), &stored);
            let _ = std::os::unix::fs::symlink(format!("store/v1-{NAME}.jbk"), case_dir.join(format!("{NAME}.jbk")));
        } else if s.id.contains("symlinked") {
            let stored = case_dir.join(format!("stored-{NAME}.jbk"));
            let _ = std::fs::rename(case_dir.join(format!("{NAME}.jbk")), &stored);
            let _ = std::os::unix::fs::symlink(format!("stored-{NAME}.jbk"), case_dir.join(format!("{NAME}.jbk")));
        }
    }
    let status = run_child(&sc_file, &case_dir, &inject, false, 20_000);
    {
        use std::os::unix::fs::PermissionsExt;
        let _ = std::fs::set_permissions(&case_dir, std::fs::Permissions::from_mode(0o755));
    }
    let (violation, state) = judge(&s, &inject, &status, &case_dir, &new_ref, old_ref.as_ref());
    println!("replay {sid} {}: child ended '{status}', destination state '{state}'", inject.encode());
    println!("files now: {:?}", read_dir_files(&case_dir).iter().map(|(n, b)| (n.clone(), b.len())).collect::<Vec<_>>());
    let _ = args;
    match violation {
        Some(vv) => {
            println!("VIOLATION property=C09 replay={file}");
            println!("  {vv}");
            std::process::exit(1)
        }
        None => {
            println!("no violation on replay");
            std::process::exit(0)
        }
    }
}

#[allow(dead_code)]
fn _unused(_: IoRecord, _: IoKind) {}
