//! The F-flavour implementation of `verif_rt::Hooks`: knobs, probe counters, and a programmable
//! plan for output I/O faults.

use std::collections::{BTreeMap, HashMap};
use std::sync::{Arc, Mutex};
use verif_rt::io::{IoDecision, IoKind, IoOp};

#[derive(Clone, Debug, PartialEq, Eq)]
pub struct IoRecord {
    pub kind: IoKind,
    pub file: String,
    pub len: usize,
}

#[derive(Clone, Debug)]
pub enum IoPlan {
    /// let everything through, record the operations
    Record,
    /// apply `decision` at the k-th operation (0-based), record everything
    At { k: u64, decision: IoDecision },
    /// benign perturbation: seeded short writes / Interrupted at random operations
    Benign { seed: u64, per_mille: u32 },
    /// from the k-th operation on the process may not write any file beyond `limit` bytes
    /// (RLIMIT_FSIZE set at that instant: "the quota is reached at the moment of publication");
    /// the operation itself proceeds
    FsizeFrom { k: u64, limit: u64 },
}

static FIRED_FILE: Mutex<Option<std::path::PathBuf>> = Mutex::new(None);

/// Where to note that the armed fault fired (written before the decision takes effect, because
/// the decision may be to die).
pub fn set_fired_file(p: Option<std::path::PathBuf>) {
    *FIRED_FILE.lock().unwrap() = p;
}

#[derive(Default)]
pub struct FState {
    pub knobs: HashMap<&'static str, u64>,
    pub probes: BTreeMap<&'static str, u64>,
    pub io_log: Vec<IoRecord>,
    pub io_count: u64,
    pub io_plan: Option<IoPlan>,
    pub io_fired: Option<(u64, IoRecord)>,
    pub benign_fired: u64,
    pub rng: Option<simcore::prng::Rng>,
    /// per-mille probability that a reader-side `ByteStream::read` is shortened, and its PRNG
    pub short_read_pm: u32,
    pub short_rng: Option<simcore::prng::Rng>,
    pub short_reads: u64,
    /// environment faults: sites whose system call is made to fail (e.g. "mmap"), and how often
    /// each armed site was actually reached
    pub failing_sites: Vec<&'static str>,
    /// sites that fail only for calls number `start .. start + count` (0-based, counted per site
    /// since the window was set)
    pub failing_windows: Vec<(&'static str, u64, u64)>,
    pub site_calls: BTreeMap<&'static str, u64>,
    /// the thread that armed the failing windows: only its calls are counted and failed (which
    /// call of a background decoder thread comes k-th is a matter of real timing)
    pub window_owner: Option<std::thread::ThreadId>,
    pub faults_fired: BTreeMap<&'static str, u64>,
}

pub struct FHooks {
    pub st: Mutex<FState>,
}

impl FHooks {
    pub fn install() -> Arc<FHooks> {
        let h = Arc::new(FHooks {
            st: Mutex::new(FState::default()),
        });
        verif_rt::install(h.clone());
        h
    }
    pub fn set_knob(&self, name: &'static str, v: u64) {
        self.st.lock().unwrap().knobs.insert(name, v);
    }
    pub fn clear_knobs(&self) {
        self.st.lock().unwrap().knobs.clear();
    }
    pub fn set_plan(&self, plan: Option<IoPlan>) {
        let mut st = self.st.lock().unwrap();
        if let Some(IoPlan::Benign { seed, .. }) = &plan {
            st.rng = Some(simcore::prng::Rng::derive(*seed, "faults", 0));
        }
        st.io_plan = plan;
        st.io_log.clear();
        st.io_count = 0;
        st.io_fired = None;
        st.benign_fired = 0;
    }
    /// Enable seeded short reads on jubako's reader-side streams (0 disables).
    pub fn set_short_reads(&self, per_mille: u32, seed: u64) {
        let mut st = self.st.lock().unwrap();
        st.short_read_pm = per_mille;
        st.short_rng = Some(simcore::prng::Rng::derive(seed, "short-reads", 0));
    }
    /// Environment faults: system calls at these sites fail from now on.
    pub fn set_failing_sites(&self, sites: Vec<&'static str>) {
        let mut st = self.st.lock().unwrap();
        st.failing_sites = sites;
        st.failing_windows.clear();
        st.site_calls.clear();
        st.faults_fired.clear();
    }
    /// Calls number `start .. start + count` at `site` fail (counted from now).
    pub fn set_failing_window(&self, site: &'static str, start: u64, count: u64) {
        let mut st = self.st.lock().unwrap();
        st.failing_windows.push((site, start, count));
        st.window_owner = Some(std::thread::current().id());
    }
    pub fn take_faults_fired(&self) -> BTreeMap<&'static str, u64> {
        std::mem::take(&mut self.st.lock().unwrap().faults_fired)
    }
    pub fn short_reads_fired(&self) -> u64 {
        self.st.lock().unwrap().short_reads
    }
    pub fn take_probes(&self) -> BTreeMap<&'static str, u64> {
        std::mem::take(&mut self.st.lock().unwrap().probes)
    }
}

impl verif_rt::Hooks for FHooks {
    fn point(&self, site: &'static str, _a: u64, _b: u64) {
        *self.st.lock().unwrap().probes.entry(site).or_insert(0) += 1;
    }
    fn knob(&self, name: &'static str, default: u64) -> u64 {
        self.st
            .lock()
            .unwrap()
            .knobs
            .get(name)
            .copied()
            .unwrap_or(default)
    }
    fn short_read(&self, n: usize) -> usize {
        let mut st = self.st.lock().unwrap();
        let pm = st.short_read_pm as u64;
        if pm == 0 {
            return n;
        }
        let rng = st.short_rng.as_mut().unwrap();
        if rng.below(1000) < pm {
            let k = rng.range(1, n as u64 - 1) as usize;
            st.short_reads += 1;
            k
        } else {
            n
        }
    }
    fn fault(&self, site: &'static str) -> bool {
        let mut st = self.st.lock().unwrap();
        if !st.failing_windows.is_empty() && st.window_owner.is_some() && st.window_owner != Some(std::thread::current().id()) && !st.failing_sites.contains(&site) {
            return false;
        }
        let n = {
            let c = st.site_calls.entry(site).or_insert(0);
            *c += 1;
            *c - 1
        };
        let in_window = st.failing_windows.iter().any(|(s, a, k)| *s == site && n >= *a && n < *a + *k);
        if in_window || st.failing_sites.contains(&site) {
            *st.faults_fired.entry(site).or_insert(0) += 1;
            true
        } else {
            false
        }
    }
    fn io(&self, op: &IoOp) -> IoDecision {
        let mut st = self.st.lock().unwrap();
        let k = st.io_count;
        st.io_count += 1;
        let rec = IoRecord {
            kind: op.kind,
            file: op.file.to_string(),
            len: op.len,
        };
        st.io_log.push(rec.clone());
        match st.io_plan.clone() {
            None | Some(IoPlan::Record) => IoDecision::Proceed,
            Some(IoPlan::At { k: at, decision }) => {
                if k == at {
                    if let Some(p) = FIRED_FILE.lock().unwrap().as_ref() {
                        let _ = std::fs::write(
                            p,
                            format!(
                                "{k} {} {} {}",
                                rec.kind.as_str(),
                                std::path::Path::new(&rec.file)
                                    .file_name()
                                    .map(|f| f.to_string_lossy().to_string())
                                    .unwrap_or_default(),
                                rec.len
                            ),
                        );
                    }
                    st.io_fired = Some((k, rec));
                    decision
                } else {
                    IoDecision::Proceed
                }
            }
            Some(IoPlan::FsizeFrom { k: at, limit }) => {
                if k == at {
                    unsafe {
                        let mut old: libc::rlimit = std::mem::zeroed();
                        libc::getrlimit(libc::RLIMIT_FSIZE, &mut old);
                        let new = libc::rlimit {
                            rlim_cur: limit,
                            rlim_max: old.rlim_max,
                        };
                        libc::setrlimit(libc::RLIMIT_FSIZE, &new);
                    }
                    st.io_fired = Some((k, rec));
                }
                IoDecision::Proceed
            }
            Some(IoPlan::Benign { per_mille, .. }) => {
                let rng = st.rng.as_mut().unwrap();
                if rng.below(1000) < per_mille as u64 {
                    let d = match op.kind {
                        IoKind::Write | IoKind::Read if op.len > 1 => {
                            if rng.chance(1, 3) {
                                IoDecision::Interrupted
                            } else {
                                IoDecision::Short(rng.range(1, op.len as u64 - 1) as usize)
                            }
                        }
                        IoKind::Write | IoKind::Read => IoDecision::Interrupted,
                        _ => IoDecision::Proceed,
                    };
                    if d != IoDecision::Proceed {
                        st.benign_fired += 1;
                    }
                    d
                } else {
                    IoDecision::Proceed
                }
            }
        }
    }
}
