//! C11: an unavailable content pack is reported as missing (with its description), everything
//! else still reads, and the container check covers the packs that are present.
//! Fault = availability of pack files: kind x subset x instant (relative to open / first access).

use crate::hooks::FHooks;
use crate::Args;
use jubako::reader::MayMissPack;
use serde_json::{json, Value};
use simcore::dump::{self, Dump, DumpSpec, Leaf};
use simcore::gen::{self, Comp, ContentSpec, Flavor, Hint, Logical, Packaging, SchemaSpec, SrcKind, StoreKind};
use simcore::prng::Rng;
use simcore::report::{self, Evidence};
use simcore::{proc, Tier};
use std::collections::BTreeMap;
use std::path::Path;
use std::sync::Arc;

#[derive(Clone, Copy, Debug, PartialEq, Eq)]
enum Kind {
    Removed,
    Directory,
    /// replaced by a different valid content pack (another pack of this container, or a foreign one)
    OtherPack,
    /// the file is present under another name, the recorded name is absent
    Renamed,
    /// the recorded name is a symbolic link whose target does not exist
    DanglingSymlink,
    /// the recorded name is a symbolic link to a different valid content pack
    SymlinkToOtherPack,
    /// the recorded name is a named pipe nobody writes to (opening it for reading never returns)
    Fifo,
}

#[derive(Clone, Copy, Debug, PartialEq, Eq)]
enum Instant {
    BeforeOpen,
    AfterOpen,
    AfterFirstAccess,
    /// unavailable before the container is opened and while every content is asked for once;
    /// then the packs are put back where the manifest says and everything is asked for again on
    /// the same container object: availability is a fact about the moment of the access
    HealedAfterFirstAnswers,
}

#[derive(Clone, Debug)]
struct Case {
    /// bit p-1 set: content pack p is made unavailable
    subset: u32,
    kind: Kind,
    instant: Instant,
    /// a present pack whose stored bytes are damaged (0 = none)
    damaged: u16,
    order_seed: u64,
    /// open with `Container::new_with_locator` and a locator the application provides (a search
    /// path over directories) instead of `Container::new`
    custom_locator: bool,
    /// the entry file is reached through a symbolic link: the link sits in the directory the packs
    /// are in, its target in another one (relative locations are relative to the directory of the
    /// path that was opened)
    via_symlink: bool,
    /// open with a locator that knows packs by their uuid only (an application-side pack store:
    /// every file of the directory is looked at, the recorded location is ignored)
    uuid_locator: bool,
    /// how the entry file is named: 0 = absolute path; 1 = its bare file name, the process
    /// standing in the container's directory; 2 = "./name" from there
    entry_style: u8,
}

/// An application-provided locator: looks the recorded location up in a list of directories.
/// It knows nothing about uuids - telling a foreign pack from the right one is the container's job.
struct SearchPathLocator {
    dirs: Vec<std::path::PathBuf>,
}

impl jubako::reader::PackLocatorTrait for SearchPathLocator {
    fn locate(&self, _uuid: uuid::Uuid, helper: &str) -> jubako::Result<Option<jubako::Reader>> {
        for d in &self.dirs {
            let p = d.join(helper);
            if p.is_file() {
                return Ok(Some(jubako::Reader::from(jubako::FileSource::open(p)?)));
            }
        }
        Ok(None)
    }
}

/// An application-side pack store: packs are known by uuid (bytes 10..26 of every pack file of
/// the directory), the location recorded in the manifest is not looked at.
struct UuidStoreLocator {
    dirs: Vec<std::path::PathBuf>,
}

impl jubako::reader::PackLocatorTrait for UuidStoreLocator {
    fn locate(&self, uuid: uuid::Uuid, _helper: &str) -> jubako::Result<Option<jubako::Reader>> {
        let mut names: Vec<std::path::PathBuf> = vec![];
        for d in &self.dirs {
            let mut here: Vec<std::path::PathBuf> = match std::fs::read_dir(d) {
                Ok(rd) => rd.filter_map(|e| e.ok()).map(|e| e.path()).collect(),
                Err(_) => continue,
            };
            here.sort();
            names.extend(here);
        }
        for p in names {
            let Ok(md) = std::fs::symlink_metadata(&p) else { continue };
            if !md.is_file() {
                continue;
            }
            use std::io::Read;
            let mut head = [0u8; 26];
            let Ok(mut f) = std::fs::File::open(&p) else { continue };

            if f.read_exact(&mut head).is_err() || &head[0..3] != b"jbk" || head[10..26] != uuid.as_bytes()[..] {
                continue;
            }
            return Ok(Some(jubako::Reader::from(jubako::FileSource::open(p)?)));
        }
        Ok(None)
    }
}

impl Case {
    fn encode(&self) -> String {
        format!(
            "subset={:b} kind={:?} instant={:?} damaged={} order={}{}",
            self.subset, self.kind, self.instant, self.damaged, self.order_seed,
            if self.uuid_locator { " locator=application-provided-by-uuid" } else if self.custom_locator { " locator=application-provided" } else if self.via_symlink { " entry=via-symlink" } else if self.entry_style == 1 { " entry=bare-name-from-its-directory" } else if self.entry_style == 2 { " entry=./name-from-its-directory" } else { "" }
        )
    }
}

fn containers(seed: u64, tier: Tier) -> Vec<(String, Logical)> {
    let mut out = vec![];
    let packs: &[u16] = match tier {
        Tier::Quick => &[1, 2, 3, 4],
        Tier::Thorough => &[1, 2, 3, 4, 5],
    };
    let mut k = 0;
    // thorough: several generations of every container shape
    let generations = if tier == Tier::Quick { 3 } else { 8 };
    for generation in 0..generations {
    for &p in packs {
        for comp in [Comp::None, Comp::Zstd(3), Comp::Lz4(3), Comp::Lzma(3)] {
            let suffix = if generation == 0 { String::new() } else { format!("-g{generation}") };
            if tier == Tier::Quick && p >= 3 && !matches!(comp, Comp::None | Comp::Zstd(_)) {
                continue;
            }
            let mut rng = Rng::derive(seed, "c11-container", k);
            k += 1;
            let hint = if comp == Comp::None { Hint::No } else { Hint::Yes };
            let n = (2 * p as usize).max(2) + rng.range(0, 2) as usize;
            let contents: Vec<ContentSpec> = (0..n)
                .map(|i| {
                    let len = rng.range(9, 120) as usize;
                    let flavor = *rng.pick(&[Flavor::Constant, Flavor::Text, Flavor::Random]);
                    ContentSpec {
                        bytes: Arc::new(gen::gen_bytes(&mut rng, i, len, flavor)),
                        hint,
                        src: SrcKind::Cursor,
                        pack: 1 + (i as u16 % p),
                    }
                })
                .collect();
            // every other container is also built as one concatenated file: its packs are found by
            // uuid inside the file at hand, whatever sits at their recorded locations
            if k % 2 == 0 || p == 2 {
                out.push((
                    format!("c11-embedded-p{p}-{}{suffix}", comp.name()),
                    Logical {
                        comp,
                        packaging: Packaging::Concat,
                        n_packs: p,
                        contents: contents_clone(&contents),
                        schema: SchemaSpec {
                            key_prefix: 2,
                            store: StoreKind::Plain,
                            variants: k % 2 == 0,
                            key_pad: 0,
                        },
                        dedup: false,
                        aux_seed: rng.next_u64(),
                        // embedded packs all recorded with the same empty location, or listed out
                        // of id order
                        opts: gen::LogicalOpts {
                            empty_locations: k % 4 == 0,
                            shuffle_manifest: k % 3 == 0,
                            ..Default::default()
                        },
                    },
                ));
            }
            if p >= 2 && (k % 3 == 1 || p == 3) {
                // content pack ids need not be contiguous: the highest id moves up by two, and the
                // directory pack is not the first pack listed
                let mut sparse = contents_clone(&contents);
                for c in sparse.iter_mut() {
                    if c.pack == p {
                        c.pack = p + 2;
                    }
                }
                out.push((
                    format!("c11-sparse-ids-p{p}-{}{suffix}", comp.name()),
                    Logical {
                        comp,
                        packaging: if k % 2 == 0 { Packaging::Concat } else { Packaging::Loose },
                        n_packs: p + 2,
                        contents: sparse,
                        schema: SchemaSpec {
                            key_prefix: 2,
                            store: StoreKind::Plain,
                            variants: false,
                            key_pad: 0,
                        },
                        dedup: false,
                        aux_seed: rng.next_u64(),
                        opts: gen::LogicalOpts {
                            absent_ids: 0b11 << (p - 1),
                            dir_not_first: k % 2 == 1,
                            shuffle_manifest: k % 4 == 1,
                            ..Default::default()
                        },
                    },
                ));
            }
            if p == 2 && k % 2 == 1 {
                out.push((
                    format!("c11-alternative-p{p}-{}{suffix}", comp.name()),
                    Logical {
                        comp,
                        packaging: Packaging::Loose,
                        n_packs: p,
                        contents: contents_clone(&contents),
                        schema: SchemaSpec {
                            key_prefix: 2,
                            store: StoreKind::Plain,
                            variants: false,
                            key_pad: 0,
                        },
                        dedup: false,
                        aux_seed: rng.next_u64(),
                        opts: gen::LogicalOpts {
                            alternative_of_pack1: true,
                            ..Default::default()
                        },
                    },
                ));
            }
            if p == 2 && k % 2 == 1 {
                // the same alternatives in a one-file edition that holds the second-listed one
                // only: the first-listed pack of id 1 is a file of its own at its recorded location
                out.push((
                    format!("c11-alternative-first-outside-p{p}-{}{suffix}", comp.name()),
                    Logical {
                        comp,
                        packaging: Packaging::Concat,
                        n_packs: p,
                        contents: contents_clone(&contents),
                        schema: SchemaSpec {
                            key_prefix: 2,
                            store: StoreKind::Plain,
                            variants: false,
                            key_pad: 0,
                        },
                        dedup: false,
                        aux_seed: rng.next_u64(),
                        opts: gen::LogicalOpts {
                            alternative_of_pack1: true,
                            concat_leave_out: 1,
                            keep_left_out: true,
                            ..Default::default()
                        },
                    },
                ));
            }
            if p >= 2 && k % 3 == 0 {
                // the last pack is recorded under a URL (loose), or left out of a one-file "light
                // edition" whose packs are all recorded with an empty location (concat)
                for (tag, packaging, opts) in [
                    ("url-located", Packaging::Loose, gen::LogicalOpts { url_located: 1 << (p - 1), ..Default::default() }),
                    ("light-edition", Packaging::Concat, gen::LogicalOpts { concat_leave_out: 1 << (p - 1), empty_locations: true, keep_left_out: true, ..Default::default() }),
                ] {
                    out.push((
                        format!("c11-{tag}-p{p}-{}{suffix}", comp.name()),
                        Logical {
                            comp,
                            packaging,
                            n_packs: p,
                            contents: contents_clone(&contents),
                            schema: SchemaSpec {
                                key_prefix: 2,
                                store: StoreKind::Plain,
                                variants: false,
                                key_pad: 0,
                            },
                            dedup: false,
                            aux_seed: rng.next_u64(),
                            opts,
                        },
                    ));
                }
            }
            out.push((
                format!("c11-p{p}-{}{suffix}", comp.name()),
                Logical {
                    comp,
                    packaging: Packaging::Loose,
                    n_packs: p,
                    contents,
                    schema: SchemaSpec {
                        key_prefix: 2,
                        store: StoreKind::Plain,
                        variants: k % 2 == 0,
                        key_pad: 0,
                    },
                    dedup: false,
                    aux_seed: rng.next_u64(),
                    // pack files next to the manifest, in a sub-directory, in a sibling directory
                    // ("../sib/<name>", what BasicCreator records for an extra pack created there),
                    // or recorded as "./<name>"
                    opts: gen::LogicalOpts {
                        shuffle_manifest: k % 2 == 1,
                        pack_location_style: (k % 4) as u8,
                        ..Default::default()
                    },
                },
            ));
        }
    }
    }
    out
}

fn contents_clone(c: &[ContentSpec]) -> Vec<ContentSpec> {
    c.to_vec()
}

fn cases_for(model: &gen::Model, seed: u64, left_out_beside: u32) -> Vec<Case> {
    let n_packs = model.n_packs;
    let absent_mask = model.absent_ids;
    let mut out = vec![];
    let mut rng = Rng::derive(seed, "c11-cases", n_packs as u64);
    // fault-free configuration first
    out.push(Case {
        subset: 0,
        kind: Kind::Removed,
        instant: Instant::BeforeOpen,
        damaged: 0,
        order_seed: 1,
        custom_locator: false,
        via_symlink: false,
        uuid_locator: false,
        entry_style: 0,
    });
    out.push(Case {
        subset: 0,
        kind: Kind::Removed,
        instant: Instant::BeforeOpen,
        damaged: 0,
        order_seed: 2,
        custom_locator: true,
        via_symlink: false,
        uuid_locator: false,
        entry_style: 0,
    });
    for subset in 1u32..(1 << n_packs) {
        if subset & absent_mask != 0 {
            continue;
        }
        for kind in [Kind::Removed, Kind::Directory, Kind::OtherPack, Kind::Renamed, Kind::DanglingSymlink, Kind::SymlinkToOtherPack, Kind::Fifo] {
            for instant in [Instant::BeforeOpen, Instant::AfterOpen, Instant::AfterFirstAccess, Instant::HealedAfterFirstAnswers] {
                out.push(Case {
                    subset,
                    kind,
                    instant,
                    damaged: 0,
                    order_seed: rng.next_u64(),
                    custom_locator: false,
                    via_symlink: subset % 2 == 1,
                    uuid_locator: false,
                    entry_style: 0,
                });
                // a second access order, through an application-provided locator
                out.push(Case {
                    subset,
                    kind,
                    instant,
                    damaged: 0,
                    order_seed: rng.next_u64(),
                    custom_locator: true,
                    via_symlink: false,
                    uuid_locator: false,
                    entry_style: 0,
                });
            }
            // "the container check covers the packs that are present": damage each present pack
            for d in 1..=n_packs {
                if subset & (1 << (d - 1)) == 0 && !model.is_absent(d) && model.unavailable & (1 << (d - 1)) == 0 {
                    out.push(Case {
                        subset,
                        kind,
                        instant: Instant::BeforeOpen,
                        damaged: d,
                        order_seed: rng.next_u64(),
                        custom_locator: d % 2 == 0,
                        via_symlink: d % 2 == 1,
                        uuid_locator: false,
                        entry_style: 0,
                    });
                }
            }
        }
    }
    // damage with nothing missing
    for d in 1..=n_packs {
        if model.is_absent(d) || model.unavailable & (1 << (d - 1)) != 0 {
            continue;
        }
        out.push(Case {
            subset: 0,
            kind: Kind::Removed,
            instant: Instant::BeforeOpen,
            damaged: d,
            order_seed: rng.next_u64(),
            custom_locator: d % 2 == 1,
            via_symlink: d % 2 == 0,
            uuid_locator: false,
            entry_style: 0,
        });
    }
    // a pack that only the by-uuid locator can find (left out of the one-file edition, lying
    // beside it) is present for that locator: damaged, the container check has to say so
    for p in 1..=n_packs {
        if left_out_beside & (1 << (p - 1)) != 0 {
            for k in 0..2 {
                out.push(Case {
                    subset: 0,
                    kind: Kind::Removed,
                    instant: Instant::BeforeOpen,
                    damaged: p,
                    order_seed: rng.next_u64(),
                    custom_locator: false,
                    via_symlink: false,
                    uuid_locator: true,
                    entry_style: k,
                });
            }
        }
    }
    // the same removals with the entry named relative to the process's directory, and through a
    // locator that knows packs by uuid only
    let base: Vec<Case> = out
        .iter()
        .filter(|c| c.kind == Kind::Removed && c.damaged == 0 && !c.custom_locator)
        .cloned()
        .collect();
    for (k, c) in base.iter().enumerate() {
        out.push(Case {
            via_symlink: false,
            entry_style: 1 + (k % 2) as u8,
            order_seed: rng.next_u64(),
            ..c.clone()
        });
        out.push(Case {
            via_symlink: false,
            uuid_locator: true,
            order_seed: rng.next_u64(),
            ..c.clone()
        });
    }
    out
}

struct Image {
    name: String,
    desc: String,
    files: Vec<(String, Vec<u8>)>,
    pack_file: BTreeMap<u16, String>,
    model: gen::Model,
    pristine: Dump,
    spec: DumpSpec,
    foreign: Vec<u8>,
    /// all packs live inside the entry file (concat): nothing at a recorded location matters
    embedded: bool,
    empty_locations: bool,
    /// packs (bit p-1) that can be found nowhere whatever the case does: recorded under a URL the
    /// default locator cannot follow (loose), or left out of the concatenated file
    always_missing: u32,
    /// packs (bit p-1) left out of the one-file edition whose file lies beside it
    left_out_beside: u32,
    /// packs (bit p-1) of a one-file edition that are NOT in the file but at their recorded
    /// location beside it: they come and go like the packs of a loose container
    outside: u32,
}

impl Image {
    /// is pack `p` a file of its own at its recorded location?
    fn own_file(&self, p: u16) -> bool {
        !self.embedded || self.outside & (1 << (p - 1)) != 0
    }
}

fn apply_fault(dir: &Path, img: &Image, case: &Case) {
    for p in img.model.pack_ids() {
        if case.subset & (1 << (p - 1)) == 0 {
            continue;
        }
        let name = &img.pack_file[&p];
        let path = dir.join(name);
        if img.embedded && img.empty_locations {
            continue;
        }
        if !img.own_file(p) {
            // the recorded location of an embedded pack: leave it empty, put a directory there, or
            // a different valid pack (a stale file)
            match case.kind {
                Kind::Removed | Kind::Renamed => {}
                Kind::Directory => std::fs::create_dir_all(&path).unwrap(),
                Kind::OtherPack => std::fs::write(&path, &img.foreign).unwrap(),
                Kind::DanglingSymlink => {
                    let _ = std::os::unix::fs::symlink(dir.join("no-such-target"), &path);
                }
                Kind::Fifo => make_fifo(&path),
                Kind::SymlinkToOtherPack => {
                    let t = dir.join(format!("{name}.foreign"));
                    std::fs::write(&t, &img.foreign).unwrap();
                    let _ = std::os::unix::fs::symlink(&t, &path);
                }
            }
            continue;
        }
        match case.kind {
            Kind::Removed => {
                let _ = std::fs::remove_file(&path);
            }
            Kind::Directory => {
                let _ = std::fs::remove_file(&path);
                std::fs::create_dir_all(&path).unwrap();
            }
            Kind::Renamed => {
                let _ = std::fs::rename(&path, dir.join(format!("{name}.moved")));
            }
            Kind::DanglingSymlink => {
                let _ = std::fs::remove_file(&path);
                let _ = std::os::unix::fs::symlink(dir.join("no-such-target"), &path);
            }
            Kind::Fifo => {
                let _ = std::fs::remove_file(&path);
                make_fifo(&path);
            }
            Kind::OtherPack | Kind::SymlinkToOtherPack => {
                // another pack of this container when there is one that stays available, else a foreign one
                let other = img.model.pack_ids().into_iter().find(|q| *q != p && case.subset & (1 << (q - 1)) == 0);
                // (a pack that has an alternative - a second pack listed under its id - is replaced
                // by exactly that sibling: same id, another uuid)
                let alt = img.files.iter().find(|(n, _)| n.ends_with(".c1alt.jbkc"));
                let bytes = if let (1, Some((_, b))) = (p, alt) {
                    b.clone()
                } else { match other {
                    // (a sibling that lives inside the one-file edition has no file of its own)
                    Some(q) => img
                        .files
                        .iter()
                        .find(|(n, _)| *n == img.pack_file[&q])
                        .map(|f| f.1.clone())
                        .unwrap_or_else(|| img.foreign.clone()),
                    None => img.foreign.clone(),
                } };
                // replace atomically (new inode) so that an already opened handle keeps the old file
                let tmp = dir.join(format!("{name}.new"));
                std::fs::write(&tmp, bytes).unwrap();
                if case.kind == Kind::SymlinkToOtherPack {
                    let link = dir.join(format!("{name}.lnk"));
                    let _ = std::fs::remove_file(&link);
                    std::os::unix::fs::symlink(&tmp, &link).unwrap();
                    std::fs::rename(&link, &path).unwrap();
                } else {
                    std::fs::rename(&tmp, &path).unwrap();
                }
            }
        }
    }
}

fn make_fifo(path: &Path) {
    if let Some(parent) = path.parent() {
        let _ = std::fs::create_dir_all(parent);
    }
    let c = std::ffi::CString::new(path.to_string_lossy().as_bytes()).unwrap();
    unsafe {
        libc::mkfifo(c.as_ptr(), 0o644);
    }
}

/// Wake up anybody blocked in `open(2)` on a FIFO below `dir` (a reader that got stuck there).
fn release_fifos(dir: &Path) {
    use std::os::unix::fs::{FileTypeExt, OpenOptionsExt};
    fn walk(d: &Path, out: &mut Vec<std::path::PathBuf>) {
        if let Ok(rd) = std::fs::read_dir(d) {
            for e in rd.flatten() {
                let p = e.path();
                match std::fs::symlink_metadata(&p) {
                    Ok(md) if md.file_type().is_fifo() => out.push(p),
                    Ok(md) if md.is_dir() => walk(&p, out),
                    _ => {}
                }
            }
        }
    }
    let mut fifos = vec![];
    walk(dir, &mut fifos);
    if let Some(parent) = dir.parent() {
        walk(&parent.join("sib"), &mut fifos);
    }
    for f in fifos {
        let _ = std::fs::OpenOptions::new().write(true).custom_flags(libc::O_NONBLOCK).open(&f);
    }
}

fn pack_info_leaf(img: &Image, p: u16) -> Option<String> {
    // the model's pack description = what the pristine manifest says about pack p
    for (path, leaf) in &img.pristine.0 {
        if path.starts_with("manifest/packinfo[") {
            if let Leaf::Val(s) = leaf {
                if s.contains(&format!(" id={p} ")) {
                    return Some(s.clone());
                }
            }
        }
    }
    None
}

/// Ask for every content (in `order`) and every pack; `missing(p)` says which packs are
/// unavailable at this moment, `handle_may_serve` whether an unavailable pack may legitimately
/// still be served from a handle opened while it was available.
fn observe_contents(
    container: &jubako::reader::Container,
    img: &Image,
    case: &Case,
    order: &[usize],
    missing: &dyn Fn(u16) -> bool,
    handle_may_serve: bool,
    tag: &str,
    bad: &mut Vec<String>,
) {
    for &ci in order {
        let c = &img.model.contents[ci];
        let addr = jubako::ContentAddress::new(c.pack.into(), c.content_id.into());
        let what = format!("{tag}content {ci} (pack {}, id {})", c.pack, c.content_id);
        let got = container.get_bytes(addr);
        let expect_info = pack_info_leaf(img, c.pack);
        match got {
            Err(e) => bad.push(format!("{what}: get_bytes returned Err({})", dump::err_class(&e))),
            Ok(None) => bad.push(format!("{what}: get_bytes says the pack id is unknown")),
            Ok(Some(MayMissPack::MISSING(info))) => {
                if !missing(c.pack) {
                    bad.push(format!("{what}: reported MISSING although its pack is available"));
                } else if Some(dump::pack_info_string(&info)) != expect_info {
                    bad.push(format!("{what}: MISSING carries a pack description that differs from the manifest's"));
                }
            }
            Ok(Some(MayMissPack::FOUND(None))) => bad.push(format!("{what}: FOUND(None)")),
            Ok(Some(MayMissPack::FOUND(Some(region)))) => {
                let served_from_open_handle = missing(c.pack) && handle_may_serve;
                if missing(c.pack) && !served_from_open_handle {
                    match dump::read_region(&region) {
                        Ok(b) if b == **c.bytes => bad.push(format!(
                            "{what}: pack is unavailable ({:?}) but FOUND was answered (with the right bytes)",
                            case.kind
                        )),
                        Ok(b) => bad.push(format!(
                            "{what}: pack is unavailable ({:?}) but FOUND was answered with foreign bytes {:?}",
                            case.kind,
                            String::from_utf8_lossy(&b[..b.len().min(8)])
                        )),
                        Err(e) => bad.push(format!("{what}: pack unavailable, FOUND answered, read fails {e}")),
                    }
                } else if case.damaged == c.pack {
                    // damaged content bytes may differ (the check must say so), never a panic
                    let _ = dump::read_region(&region);
                } else {
                    match dump::read_region(&region) {
                        Ok(b) if b == **c.bytes => {}
                        Ok(_) => bad.push(format!("{what}: wrong bytes")),
                        Err(e) => bad.push(format!("{what}: read error {e}")),
                    }
                }
            }
        }
    }
    // pack level
    for p in 1..=img.model.n_packs + 1 {
        if img.model.is_absent(p) || p > img.model.n_packs {
            // an id the manifest does not list: "no such pack", not an error, not a pack
            match container.get_pack(jubako::PackId::from(p)) {
                Ok(None) => {}
                Ok(Some(_)) => bad.push(format!("{tag}get_pack({p}) answers a pack although the manifest lists no pack with that id")),
                Err(e) => bad.push(format!("{tag}get_pack({p}) (id not in the manifest) returned Err({})", dump::err_class(&e))),
            }
            continue;
        }
        match container.get_pack(jubako::PackId::from(p)) {
            Err(e) => bad.push(format!("{tag}get_pack({p}) returned Err({})", dump::err_class(&e))),
            Ok(None) => bad.push(format!("{tag}get_pack({p}) says unknown pack id")),
            Ok(Some(MayMissPack::MISSING(_))) => {
                if !missing(p) {
                    bad.push(format!("{tag}get_pack({p}) MISSING although available"));
                }
            }
            Ok(Some(MayMissPack::FOUND(_))) => {
                if missing(p) && !handle_may_serve {
                    bad.push(format!("{tag}get_pack({p}) FOUND although unavailable ({:?})", case.kind));
                }
            }
        }
    }
}

fn run_case(dir: &Path, img: &Image, case: &Case) -> Vec<String> {
    let mut bad: Vec<String> = vec![];
    // fresh copy of the file set
    let _ = std::fs::remove_dir_all(dir);
    std::fs::create_dir_all(dir).unwrap();
    // a sibling directory left by an earlier case
    let _ = std::fs::remove_dir_all(dir.join("../sib"));
    for (n, b) in &img.files {
        let path = dir.join(n);
        if let Some(parent) = path.parent() {
            std::fs::create_dir_all(parent).unwrap();
        }
        std::fs::write(path, b).unwrap();
    }
    if case.damaged != 0 && img.embedded && img.left_out_beside & (1 << (case.damaged - 1)) != 0 {
        // the pack that lies beside the one-file edition (only a locator that goes by uuid finds it)
        let name = img
            .files
            .iter()
            .map(|f| &f.0)
            .find(|n| n.contains("separately-shipped"))
            .unwrap_or_else(|| simcore::harness_error("C11: no separately shipped pack file in this image"));
        let mut b = std::fs::read(dir.join(name)).unwrap();
        let pos = 130.min(b.len() - 1);
        b[pos] ^= 0x5a;
        std::fs::write(dir.join(name), b).unwrap();
    } else if case.damaged != 0 && !img.own_file(case.damaged) {
        let want = img.pristine.get(&format!("pack[{}]/uuid", case.damaged)).map(|l| l.short());
        let name = &img.files[0].0;
        let mut b = std::fs::read(dir.join(name)).unwrap();
        let spans = simcore::layout::scan_file(&b);
        let span = spans
            .iter()
            .find(|s| s.kind == b'c' && want == Some(format!("={}", uuid::Uuid::from_bytes(s.uuid))))
            .unwrap_or_else(|| simcore::harness_error("C11: embedded pack not found by the scanner"));
        let pos = (span.start + 130) as usize;
        b[pos] ^= 0x5a;
        std::fs::write(dir.join(name), b).unwrap();
    } else if case.damaged != 0 {
        let name = &img.pack_file[&case.damaged];
        let mut b = std::fs::read(dir.join(name)).unwrap();
        // flip one byte of cluster data (just after the two 64-byte headers)
        let pos = 130.min(b.len() - 1);
        b[pos] ^= 0x5a;
        std::fs::write(dir.join(name), b).unwrap();
    }
    if matches!(case.instant, Instant::BeforeOpen | Instant::HealedAfterFirstAnswers) {
        apply_fault(dir, img, case);
    }
    let entry = dir.join(&img.files[0].0);
    if case.via_symlink {
        let real = dir.join("elsewhere");
        std::fs::create_dir_all(&real).unwrap();
        let target = real.join(&img.files[0].0);
        std::fs::rename(&entry, &target).unwrap();
        std::os::unix::fs::symlink(std::path::Path::new("elsewhere").join(&img.files[0].0), &entry).unwrap();
    }
    // (the worker runs one case at a time; every other path it uses is absolute)
    struct BackTo(std::path::PathBuf);
    impl Drop for BackTo {
        fn drop(&mut self) {
            let _ = std::env::set_current_dir(&self.0);
        }
    }
    let _back = if case.entry_style != 0 {
        let b = BackTo(std::env::current_dir().unwrap_or_else(|_| "/".into()));
        std::env::set_current_dir(dir).unwrap_or_else(|e| simcore::harness_error(&format!("C11: chdir: {e}")));
        Some(b)
    } else {
        None
    };
    let entry = match case.entry_style {
        1 => std::path::PathBuf::from(&img.files[0].0),
        2 => std::path::Path::new(".").join(&img.files[0].0),
        _ => entry,
    };
    let opened = if case.uuid_locator {
        jubako::reader::Container::new_with_locator(&entry, Arc::new(UuidStoreLocator { dirs: vec![dir.to_path_buf(), dir.join("sub"), dir.join("../sib")] }))
    } else if case.custom_locator {
        jubako::reader::Container::new_with_locator(
            &entry,
            Arc::new(SearchPathLocator {
                dirs: vec![dir.join("no-such-dir"), dir.to_path_buf()],
            }),
        )
    } else {
        jubako::reader::Container::new(&entry)
    };
    let container = match opened {
        Ok(c) => c,
        Err(e) => {
            bad.push(format!("Container::new failed: {}", dump::err_class(&e)));
            return bad;
        }
    };
    if case.instant == Instant::AfterOpen {
        apply_fault(dir, img, case);
    }
    let mut order: Vec<usize> = (0..img.model.contents.len()).collect();
    Rng::derive(case.order_seed, "c11-order", 0).shuffle(&mut order);
    if case.instant == Instant::AfterFirstAccess {
        // touch every pack once, then pull the files away
        for p in img.model.pack_ids() {
            let _ = container.get_pack(jubako::PackId::from(p));
        }
        apply_fault(dir, img, case);
    }
    // (a pack left out of a one-file edition lies beside it under a name the manifest does not
    // record: only the locator that goes by uuid can find it)
    // (likewise a loose pack recorded under a URL: its file is in the directory under a plain name)
    let left_out_found = |p: u16| case.uuid_locator && (!img.embedded || img.left_out_beside & (1 << (p - 1)) != 0);
    let missing = |p: u16| (img.always_missing & (1 << (p - 1)) != 0 && !left_out_found(p)) || (img.own_file(p) && case.subset & (1 << (p - 1)) != 0);
    observe_contents(&container, img, case, &order, &missing, case.instant == Instant::AfterFirstAccess, "", &mut bad);
    let mut put_back_damaged: Option<u16> = None;
    if case.instant == Instant::HealedAfterFirstAnswers {
        // the container check is asked while the packs are away (it covers the packs that are
        // present) ...
        if case.damaged == 0 {
            match container.check() {
                Ok(true) => {}
                other => bad.push(format!(
                    "while the packs are away: Container::check() is {:?} although every present pack is pristine",
                    other.map_err(|e| dump::err_class(&e))
                )),
            }
        }
        // ... and in every other case the first pack that comes back comes back damaged (a byte
        // of its cluster data): the same container, asked again, must not answer that all is well
        let damage_on_return = case.damaged == 0 && case.order_seed % 2 == 0;
        // (a pack nobody can find even when its file is there - recorded under a URL, left out of
        // an edition - is not "back": the check is right not to look at it)
        let findable = |p: u16| !(img.always_missing & (1 << (p - 1)) != 0 && !left_out_found(p));
        // put every pack back where the manifest says and ask again, on the same container
        for p in img.model.pack_ids() {
            if case.subset & (1 << (p - 1)) == 0 {
                continue;
            }
            let name = &img.pack_file[&p];
            let path = dir.join(name);
            if let Ok(md) = std::fs::symlink_metadata(&path) {
                if md.is_dir() {
                    let _ = std::fs::remove_dir_all(&path);
                } else {
                    let _ = std::fs::remove_file(&path);
                }
            }
            if img.own_file(p) {
                let bytes = &img.files.iter().find(|(n, _)| n == name).unwrap().1;
                if damage_on_return && put_back_damaged.is_none() && bytes.len() > 200 && findable(p) {
                    let mut b = bytes.clone();
                    b[130] ^= 0x5a;
                    std::fs::write(&path, b).unwrap();
                    put_back_damaged = Some(p);
                } else {
                    std::fs::write(&path, bytes).unwrap();
                }
            }
        }
        let nobody = |p: u16| img.always_missing & (1 << (p - 1)) != 0 && !left_out_found(p);
        if put_back_damaged.is_none() {
            observe_contents(&container, img, case, &order, &nobody, false, "after the packs were put back: ", &mut bad);
        }
    }
    // entries and indexes are untouched by any of this
    let mut d = Dump::default();
    let mut spec = img.spec.clone();
    spec.max_pack_id = 0; // pack leaves are judged above
    spec.read_bytes = false;
    dump::dump_opened(&container, &spec, &mut d);
    for (path, leaf) in &d.0 {
        if path.starts_with("index[") {
            if img.pristine.get(path) != Some(leaf) {
                bad.push(format!("{path}: {} differs from the pristine container", leaf.short()));
            }
        }
    }
    // the container check covers the packs that are present
    let check = container.check();
    if let (Some(p), Ok(true)) = (put_back_damaged, &check) {
        bad.push(format!("Container::check() is Ok(true) although pack {p} came back damaged (asked before, while it was away, and again now on the same container)"));
    }
    match (&check, case.damaged) {
        (_, 0) if put_back_damaged.is_some() => {}
        (Ok(true), 0) => {}
        (Ok(true), d) => bad.push(format!(
            "Container::check() is Ok(true) although present pack {d} is damaged (missing subset {:b})",
            case.subset
        )),
        (Ok(false), 0) => bad.push("Container::check() is Ok(false) although every present pack is pristine".into()),
        (Err(e), 0) => bad.push(format!(
            "Container::check() is Err({}) although every present pack is pristine",
            dump::err_class(e)
        )),
        (_, _) => {}
    }
    bad
}

pub fn worker_main(args: &Args, w: usize, n: usize) -> ! {
    let hooks = FHooks::install();
    let scratch = simcore::Scratch::new(&format!("C11-w{w}"));
    // a foreign valid content pack
    let foreign = {
        let dir = scratch.sub("foreign");
        let mut l = containers(args.seed ^ 0xF0F0, Tier::Quick).remove(0).1;
        l.n_packs = 1;
        for c in &mut l.contents {
            c.pack = 1;
        }
        let (built, _) = crate::build_image(&hooks, args.seed, "foreign", &l, &dir)
            .unwrap_or_else(|e| simcore::harness_error(&e));
        std::fs::read(&built.pack_files[&1]).unwrap()
    };
    let only = std::env::var("VERIF_ONLY_IMAGE").ok();
    for (ii, (name, logical)) in containers(args.seed, args.tier).into_iter().enumerate() {
        if let Some(o) = &only {
            if !name.contains(o.as_str()) {
                continue;
            }
        }
        let dir = scratch.sub(&format!("img{ii}"));
        hooks.set_short_reads(0, 0);
        let (built, pristine) = crate::build_image(&hooks, args.seed, &name, &logical, &dir)
            .unwrap_or_else(|e| simcore::harness_error(&e));
        let mism = dump::check_against_model(&pristine, &built.model, true);
        if !mism.is_empty() {
            // the fault-free configuration already misreads: reported as a violation (every pack is
            // available and yet something does not read as written)
            if w == 0 {
                println!(
                    "{}",
                    json!({"t":"case","ii":ii,"image":name,"i":0,"case":"fault-free configuration","kind":"none",
                           "instant":"-","subset":0,"damaged":0,
                           "bad":[format!("fault-free: {}", mism[0])],"panicked":false})
                );
            }
            continue;
        }
        // names relative to the directory of the entry file ("sub/x", "../sib/x" for pack files
        // that live elsewhere)
        // (a pack recorded under a URL lives next to the manifest under its plain name: nothing
        // must sit at the path the URL would spell if it were taken for a relative path)
        let where_is = |p: u16| -> String {
            if logical.opts.url_located & (1 << (p - 1)) != 0 {
                format!("{name}.c{p}.jbkc")
            } else {
                gen::pack_location(&logical, &name, p)
            }
        };
        let rel = |f: &std::path::PathBuf| -> String {
            if let Some((p, _)) = built.pack_files.iter().find(|(_, v)| *v == f) {
                return where_is(*p);
            }
            f.file_name().unwrap().to_string_lossy().to_string()
        };
        let files: Vec<(String, Vec<u8>)> = built.files.iter().map(|f| (rel(f), std::fs::read(f).unwrap())).collect();
        let embedded = logical.packaging == Packaging::Concat;
        let pack_file: BTreeMap<u16, String> = if embedded {
            // the locations recorded in the manifest are the names the loose files had
            built.model.pack_ids().into_iter().map(|p| (p, format!("{name}.c{p}.jbkc"))).collect()
        } else {
            built.pack_files.keys().map(|k| (*k, where_is(*k))).collect()
        };
        let img = Arc::new(Image {
            name: name.clone(),
            desc: gen::describe(&logical),
            files,
            pack_file,
            spec: DumpSpec::for_model(&built.model),
            model: built.model,
            pristine,
            foreign: foreign.clone(),
            embedded,
            empty_locations: logical.opts.empty_locations,
            always_missing: if embedded && logical.opts.keep_left_out && !logical.opts.empty_locations { 0 } else if embedded { logical.opts.concat_leave_out } else { logical.opts.url_located },
            left_out_beside: if embedded && logical.opts.keep_left_out && logical.opts.empty_locations { logical.opts.concat_leave_out } else { 0 },
            outside: if embedded && logical.opts.keep_left_out && !logical.opts.empty_locations { logical.opts.concat_leave_out } else { 0 },
        });
        let cases = cases_for(&img.model, simcore::prng::hash_label(args.seed, &name, 0), img.left_out_beside);
        let total = cases.len() as u64;
        println!(
            "{}",
            json!({"t":"image","ii":ii,"image":img.name,"desc":img.desc,"cases":total,"packs":img.model.n_packs})
        );
        let lo = total * w as u64 / n as u64;
        let hi = total * (w as u64 + 1) / n as u64;
        // every other image is read from a directory whose name is not valid UTF-8 (the creator
        // API only takes UTF-8 paths, the reader takes any path)
        let case_dir = if ii % 2 == 1 {
            use std::os::unix::ffi::OsStrExt;
            let mut name = b"case-archiv\xE9s-".to_vec();
            name.extend_from_slice(ii.to_string().as_bytes());
            scratch.path.join(std::ffi::OsStr::from_bytes(&name))
        } else {
            scratch.path.join(format!("case-{ii}"))
        };
        let mut fifo_blocked = false;
        for i in lo..hi {
            let case = &cases[i as usize];
            hooks.set_short_reads(if i % 2 == 1 { 300 } else { 0 }, i);
            let r = if case.kind == Kind::Fifo && fifo_blocked {
                // an earlier named-pipe case of this worker never came back: the others are not run
                // (each would cost the whole watchdog period), they count as the same complaint
                Ok(vec!["a named pipe sits at a pack's recorded location and the reader never answers (not run again: an earlier case of this kind blocked)".to_string()])
            } else if case.kind == Kind::Fifo {
                // a reader that opens the pipe never comes back: the case runs on its own thread
                // and is given 20 s (it takes about a millisecond)
                let (tx, rx) = std::sync::mpsc::channel();
                let (img2, case2, dir2) = (Arc::clone(&img), case.clone(), case_dir.clone());
                std::thread::spawn(move || {
                    let r = std::panic::catch_unwind(std::panic::AssertUnwindSafe(|| run_case(&dir2, &img2, &case2)));
                    let _ = tx.send(r);
                });
                match rx.recv_timeout(std::time::Duration::from_secs(20)) {
                    Ok(r) => r,
                    Err(_) => {
                        fifo_blocked = true;
                        release_fifos(&case_dir);
                        let _ = rx.recv_timeout(std::time::Duration::from_secs(5));
                        Ok(vec!["a named pipe sits at a pack's recorded location and the reader never answers (no result within 20 s): it blocks opening the pipe".to_string()])
                    }
                }
            } else {
                std::panic::catch_unwind(std::panic::AssertUnwindSafe(|| run_case(&case_dir, &img, case)))
            };
            let (bad, panicked) = match r {
                Ok(b) => (b, false),
                Err(_) => {
                    crate::harness_panic_guard("C11 case");
                    (vec![format!("panic at {}", crate::last_panic_location())], true)
                }
            };
            println!(
                "{}",
                json!({"t":"case","ii":ii,"image":img.name,"i":i,"case":case.encode(),"kind":format!("{:?}", case.kind),
                       "instant":format!("{:?}", case.instant),"subset":case.subset,"damaged":case.damaged,
                       "bad":bad,"panicked":panicked})
            );
        }
        let _ = std::fs::remove_dir_all(&case_dir);
        let _ = std::fs::remove_dir_all(&dir);
    }
    proc::flush_stdout();
    drop(scratch);
    std::process::exit(0)
}

pub fn parent_main(args: &Args) -> ! {
    let id = "C11";
    let mut ev = Evidence::new(id, args.tier.name(), args.seed, "fault_enumeration");
    let known = report::load_known_findings();
    let n = proc::n_workers();
    let mut wargs: Vec<String> = vec![
        "c11".into(),
        "--tier".into(),
        args.tier.name().into(),
        "--seed".into(),
        args.seed.to_string(),
    ];
    wargs.extend(args.rest.iter().cloned());
    let outs = proc::fan_out(n, &wargs);
    for o in &outs {
        if !o.ok {
            simcore::harness_error(&format!("worker {} failed: {}", o.index, o.status));
        }
    }
    let mut images: BTreeMap<u64, Value> = BTreeMap::new();
    let mut recs: Vec<Value> = vec![];
    for o in outs {
        for line in o.lines {
            let Ok(v) = serde_json::from_str::<Value>(&line) else { continue };
            if v["t"] == "image" {
                images.entry(v["ii"].as_u64().unwrap()).or_insert(v);
            } else if v["t"] == "case" {
                recs.push(v);
            }
        }
    }
    recs.sort_by_key(|r| (r["ii"].as_u64().unwrap_or(0), r["i"].as_u64().unwrap_or(0)));
    let run_digest = report::digest_records(recs.iter());
    println!("DIGEST {id} {run_digest}");
    let mut violations: Vec<(String, Value)> = vec![];
    let mut known_hits: BTreeMap<String, (u64, String)> = BTreeMap::new();
    for r in &recs {
        ev.evaluations += 1;
        let nontrivial = r["subset"].as_u64().unwrap_or(0) != 0 || r["damaged"].as_u64().unwrap_or(0) != 0;
        if nontrivial {
            let kind = if r["subset"].as_u64().unwrap_or(0) != 0 {
                format!("{}@{}", r["kind"].as_str().unwrap_or("?"), r["instant"].as_str().unwrap_or("?"))
            } else {
                "damaged-present-pack".to_string()
            };
            ev.fired(&kind, 1);
            if r["damaged"].as_u64().unwrap_or(0) != 0 && r["subset"].as_u64().unwrap_or(0) != 0 {
                ev.fired("missing+damaged-present-pack", 1);
            }
            ev.distinct
                .insert(simcore::prng::hash_label(0, &format!("{}|{}", r["image"], r["case"]), 0));
        }
        if ev.evaluations % 1499 == 1 {
            ev.sample(r.clone());
        }
        let bad: Vec<String> = r["bad"]
            .as_array()
            .map(|a| a.iter().filter_map(|s| s.as_str().map(|s| s.to_string())).collect())
            .unwrap_or_default();
        if let Some(first) = bad.first() {
            let norm: String = first.chars().map(|c| if c.is_ascii_digit() { 'N' } else { c }).collect();
            let sig = format!(
                "C11|{}|{}|{}",
                r["kind"].as_str().unwrap_or("?"),
                r["instant"].as_str().unwrap_or("?"),
                norm
            );
            match report::match_known(&known, id, &sig) {
                Some(k) => {
                    known_hits.entry(k.id.clone()).or_insert((0, k.what.clone())).0 += 1;
                }
                None => violations.push((sig, r.clone())),
            }
        }
    }
    for (kid, (count, what)) in &known_hits {
        println!("KNOWN-FINDING: property={id} {kid}: {what} ({count} cases this run)");
    }
    ev.rule = "containers = loose manifest + directory + 1..n content packs (all compressions); cases = EVERY non-empty subset of content packs x {removed, replaced by a directory, replaced by a different valid content pack, present under another name} x {before Container::new, after open before first access, after first access} x two seeded access orders, plus every present pack damaged (one flipped byte) for every subset and kind, plus the fault-free configuration; non-trivial = a pack was made unavailable or damaged; distinct = distinct (container, case)".into();
    ev.exhaustive = Some(true);
    ev.extra.insert("containers".into(), json!(images.values().collect::<Vec<_>>()));
    ev.extra.insert("workers".into(), json!(n));
    ev.extra.insert("run_digest".into(), json!(run_digest));
    ev.extra.insert(
        "real_vs_stub".into(),
        json!({"real": ["reader::Container, FsLocator/ChainedLocator, ManifestPack, ContentPack, codecs", "file system (tmpfs)"],
               "simulated": ["availability of each pack file (kind x subset x instant)", "stored bytes of a present pack", "OS randomness (seeded)"],
               "stub": []}),
    );
    ev.assumptions.push("after the first access a pack may legitimately still be served from the open handle: accepted answers there are the model bytes or MISSING".into());
    ev.violations = violations.len() as u64;
    let mut seen = std::collections::BTreeSet::new();
    for (sig, r) in &violations {
        if !seen.insert(sig.clone()) || seen.len() > 10 {
            continue;
        }
        let path = report::write_replay(
            id,
            args.seed,
            &format!("{}-{}", r["image"].as_str().unwrap_or(""), r["i"]),
            json!({"property": id, "seed": args.seed, "tier": args.tier.name(), "image": r["image"],
                   "case_index": r["i"], "case": r["case"], "signature": sig, "detail": r}),
        );
        println!("VIOLATION property={id} replay={}", path.display());
        eprintln!("  {sig}");
    }
    if ev.distinct.len() < 2 {
        simcore::harness_error("fewer than 2 non-trivial cases");
    }
    ev.write().expect("write evidence");
    println!(
        "{id}: {} cases, {} non-trivial, {} known-finding cases, {} new violations, {:.1}s",
        ev.evaluations,
        ev.distinct.len(),
        known_hits.values().map(|v| v.0).sum::<u64>(),
        violations.len(),
        ev.wall_s()
    );
    std::process::exit(if violations.is_empty() { 0 } else { 1 })
}

pub fn replay_main(args: &Args, file: &str) -> ! {
    let v: Value = serde_json::from_str(&std::fs::read_to_string(file).unwrap_or_else(|e| {
        simcore::harness_error(&format!("cannot read replay file: {e}"))
    }))
    .unwrap_or_else(|e| simcore::harness_error(&format!("replay file does not parse: {e}")));
    let seed = v["seed"].as_u64().unwrap();
    let tier = Tier::parse(v["tier"].as_str().unwrap()).unwrap();
    let image = v["image"].as_str().unwrap().to_string();
    let idx = v["case_index"].as_u64().unwrap();
    std::env::set_var("VERIF_ONLY_IMAGE", &image);
    std::env::set_var("VERIF_WORKERS", "1");
    let a2 = Args {
        cmd: "c11".into(),
        tier,
        seed,
        replay: None,
        worker: None,
        rest: vec![],
    };
    // run the single-image campaign in this process tree and pick the case
    let outs = proc::fan_out(
        1,
        &[
            "c11".into(),
            "--tier".into(),
            a2.tier.name().into(),
            "--seed".into(),
            a2.seed.to_string(),
        ],
    );
    let _ = args;
    for o in outs {
        for line in o.lines {
            let Ok(r) = serde_json::from_str::<Value>(&line) else { continue };
            if r["t"] == "case" && r["image"] == image.as_str() && r["i"].as_u64() == Some(idx) {
                println!("replay {image} case {idx}: {}", r["case"]);
                let bad = r["bad"].as_array().cloned().unwrap_or_default();
                if bad.is_empty() {
                    println!("no violation on replay");
                    std::process::exit(0);
                }
                println!("VIOLATION property=C11 replay={file}");
                for b in bad {
                    println!("  {b}");
                }
                std::process::exit(1);
            }
        }
    }
    simcore::harness_error("replay: case not found")
}
