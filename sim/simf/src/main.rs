//! F flavour ("faults"): real threads; the simulator owns the stored bytes, the output I/O
//! points, process death and pack availability.

mod bigmanifest;
mod c07f;
mod c09;
mod c11;
mod c12;
mod campaign;
mod hooks;

use simcore::gen;
use simcore::{dump, images, Tier};
use std::sync::Arc;

pub struct Args {
    pub cmd: String,
    pub tier: Tier,
    pub seed: u64,
    pub replay: Option<String>,
    pub worker: Option<(usize, usize)>,
    pub rest: Vec<String>,
}

fn parse_args() -> Args {
    let raw: Vec<String> = std::env::args().skip(1).collect();
    let mut a = Args {
        cmd: raw.first().cloned().unwrap_or_default(),
        tier: std::env::var("VERIF_TIER")
            .ok()
            .and_then(|t| Tier::parse(&t))
            .unwrap_or(Tier::Quick),
        seed: simcore::seed_from_env(),
        replay: None,
        worker: simcore::proc::parse_worker_arg(&raw),
        rest: vec![],
    };
    let mut i = 1;
    while i < raw.len() {
        match raw[i].as_str() {
            "--tier" => {
                i += 1;
                a.tier = Tier::parse(&raw[i]).unwrap_or_else(|| simcore::harness_error("bad tier"));
            }
            "--seed" => {
                i += 1;
                a.seed = raw[i].parse().unwrap_or_else(|_| simcore::harness_error("bad seed"));
            }
            "--replay" => {
                i += 1;
                a.replay = Some(raw[i].clone());
            }
            s if s.starts_with("--worker=") => {}
            s => a.rest.push(s.to_string()),
        }
        i += 1;
    }
    a
}

/// Build one image of the grid in `dir`, check it against the model, return what was built.
pub fn build_image(
    hooks: &hooks::FHooks,
    seed: u64,
    name: &str,
    logical: &gen::Logical,
    dir: &std::path::Path,
) -> Result<(gen::Built, dump::Dump), String> {
    hooks.clear_knobs();
    hooks.set_knob("creator_workers", 1);
    simcore::osrand::reseed(simcore::prng::hash_label(seed, name, 0));
    let built = gen::build(logical, dir, name, &gen::BuildOpts::default())
        .map_err(|e| format!("build {name}: {e}"))?;
    let spec = dump::DumpSpec::for_model(&built.model);
    // a panic of jubako while it reads an undamaged container is an observation (the image then
    // does not match its model and is reported in the fault-free part), not a harness error
    let d = match std::panic::catch_unwind(std::panic::AssertUnwindSafe(|| {
        dump::dump_container(&built.entry, &spec)
    })) {
        Ok(d) => d,
        Err(_) => {
            harness_panic_guard("pristine dump");
            let mut d = dump::Dump::default();
            d.push(
                "open",
                dump::Leaf::Err(format!("panicked at {}", last_panic_location())),
            );
            d
        }
    };
    Ok((built, d))
}

/// `BasicCreator` TwoFiles / NoConcat wrap the content pack in a container pack, which
/// `Container::get_pack` cannot open on the pinned tree (a C10 matter, not claimed here): the
/// model comparison skips content leaves for these packagings.
pub fn contents_readable(p: gen::Packaging) -> bool {
    !matches!(p, gen::Packaging::BasicTwo | gen::Packaging::BasicNoConcat)
}

fn smoke(args: &Args) {
    let hooks = hooks::FHooks::install();
    let scratch = simcore::Scratch::new("smoke");
    let mut bad = 0;
    for (name, logical) in images::grid(args.seed, args.tier) {
        let dir = scratch.sub(&name);
        match build_image(&hooks, args.seed, &name, &logical, &dir) {
            Err(e) => {
                println!("{name}: BUILD FAILED {e}");
                bad += 1;
            }
            Ok((built, d)) => {
                let total: u64 = built
                    .files
                    .iter()
                    .map(|f| std::fs::metadata(f).map(|m| m.len()).unwrap_or(0))
                    .sum();
                let mism = dump::check_against_model(&d, &built.model, contents_readable(logical.packaging));
                println!(
                    "{name}: files={} bytes={} leaves={} digest={:016x} mismatches={}",
                    built.files.len(),
                    total,
                    d.0.len(),
                    d.digest(),
                    mism.len()
                );
                for m in mism.iter().take(5) {
                    println!("    {m}");
                }
                if !mism.is_empty() {
                    bad += 1;
                }
            }
        }
    }
    let _ = Arc::strong_count(&hooks);
    std::process::exit(if bad == 0 { 0 } else { 2 });
}

thread_local! {
    static LAST_PANIC_LOC: std::cell::RefCell<String> = const { std::cell::RefCell::new(String::new()) };
}

/// Where the last panic of this thread was raised (file:line).
pub fn last_panic_location() -> String {
    LAST_PANIC_LOC.with(|l| l.borrow().clone())
}

/// A panic caught around code under test is an observation about jubako only if it was raised
/// in jubako's (or a dependency's) code; a panic raised in the harness's own sources is a harness
/// error and must never be reported as a verdict.
pub fn harness_panic_guard(what: &str) {
    let loc = last_panic_location();
    if loc.starts_with("simf/") || loc.starts_with("simcore/") || loc.starts_with("verif-rt/") || loc.contains("/verif/sim/") {
        simcore::harness_error(&format!("{what}: the harness itself panicked at {loc}"));
    }
}

fn install_location_hook() {
    let prev = std::panic::take_hook();
    std::panic::set_hook(Box::new(move |info| {
        let loc = info
            .location()
            .map(|l| format!("{}:{}", l.file(), l.line()))
            .unwrap_or_else(|| "?".into());
        LAST_PANIC_LOC.with(|l| *l.borrow_mut() = loc);
        if std::env::var("VERIF_SHOW_PANICS").is_ok() {
            prev(info);
        }
    }));
}

fn main() {
    simcore::install_log_sink();
    let args = parse_args();
    if !args.cmd.starts_with("child") {
        install_location_hook();
    }
    match args.cmd.as_str() {
        "smoke" => smoke(&args),
        "c04" | "c05" | "c06" => {
            let mode = match args.cmd.as_str() {
                "c04" => campaign::Mode::C04,
                "c05" => campaign::Mode::C05,
                _ => campaign::Mode::C06,
            };
            if let Some(f) = args.replay.clone() {
                campaign::replay_main(&args, mode, &f)
            } else if let Some((w, n)) = args.worker {
                campaign::worker_main(&args, mode, w, n)
            } else {
                campaign::parent_main(&args, mode)
            }
        }
        "child-damage" => campaign::child_main(&args),
        "child-special" => campaign::special_child_main(&args),
        "c09" => {
            if let Some(f) = args.replay.clone() {
                c09::replay_main(&args, &f)
            } else if let Some((w, n)) = args.worker {
                c09::worker_main(&args, w, n)
            } else {
                c09::parent_main(&args)
            }
        }
        "child-c09" => c09::child_main(&args),
        "c07f" => {
            if let Some(f) = args.replay.clone() {
                c07f::replay_main(&args, &f)
            } else {
                c07f::parent_main(&args)
            }
        }
        "child-c07f" => c07f::child_main(&args),
        "c12" => {
            if let Some(f) = args.replay.clone() {
                c12::replay_main(&args, &f)
            } else if let Some((w, n)) = args.worker {
                c12::worker_main(&args, w, n)
            } else {
                c12::parent_main(&args)
            }
        }
        "c11" => {
            if let Some(f) = args.replay.clone() {
                c11::replay_main(&args, &f)
            } else if let Some((w, n)) = args.worker {
                c11::worker_main(&args, w, n)
            } else {
                c11::parent_main(&args)
            }
        }
        other => simcore::harness_error(&format!("unknown command {other:?}")),
    }
}
