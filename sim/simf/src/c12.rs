//! C12: rewriting a pack location changes only that location; the manifest stays valid.
//! Seeded operation histories against a small reference model (uuid -> location), compared
//! after every step. There is no schedule or fault here: what the simulator contributes is the
//! history oracle.

use crate::hooks::FHooks;
use crate::Args;
use jubako::Pack;
use serde_json::{json, Value};
use simcore::dump::{self, Dump, DumpSpec, Leaf};
use simcore::gen::{self, Comp, ContentSpec, Flavor, Hint, Logical, Packaging, SchemaSpec, SrcKind, StoreKind};
use simcore::layout;
use simcore::prng::Rng;
use simcore::report::{self, Evidence};
use simcore::{proc, Tier};
use std::collections::BTreeMap;
use std::path::Path;
use std::sync::Arc;

#[derive(Clone, Debug)]
enum Op {
    /// rewrite the location of listed pack `pack` (index into the manifest's slot list)
    Set { pack: usize, loc: String },
    /// name a pack that is not in the manifest
    SetUnknown { uuid_seed: u64, loc: String },
    /// put every location back to what the creator wrote
    RestoreAll,
    /// rewrite the location to a string that differs from the current one but names the same
    /// path (doubled separator, "/./", trailing "/", leading "./")
    SetEquivalent { pack: usize, how: u8 },
    /// environment fault: from here on the process may not write the file beyond `bytes`
    /// (RLIMIT_FSIZE with SIGXFSZ ignored: the write is refused with EFBIG, possibly after a part
    /// of it went through); 0 lifts the limit
    FileSizeLimit { bytes: u64 },
    /// environment: from here on somebody else holds an advisory lock (flock) on the file through
    /// another open handle - shared or exclusive; `None` releases it. Rewriting a location must
    /// not depend on locks nobody asked it to take
    AdvisoryLock { exclusive: Option<bool> },
    /// environment: from here on the caller names the file another way - 0 its own path, 1 a
    /// symbolic link next to it (a stable name `current.jbk -> edition.jbk`), 2 a hard link,
    /// 3 a path with `.` and `..` components, 4 its bare name (a hard link) while the process
    /// stands in a directory whose absolute path is longer than PATH_MAX (relative names work
    /// there, absolute ones cannot be spelled). The same file is rewritten whatever it is called
    NamedThrough { how: u8 },
    /// a request the library cannot grant: a location longer than the 213 bytes a pack
    /// description holds. Refusing it (error or panic) is fine; it must change nothing, and every
    /// later request must be served as if this one had never been made
    Overlong { pack: usize, len: usize },
    /// environment: from here on requests are made the way an administrator makes them - through
    /// the repository's own command-line tool (`jbk locate <file> <uuid> <location>`, a separate
    /// process per request, its answer read from its output) - or, `cli: false`, by library calls
    /// again. The same manifest is rewritten whichever way the request arrives
    Route { cli: bool },
    /// the same manifest also lives in a second file - the container an administrator made of the
    /// loose packs with `tools::concat` (same manifest uuid, other position in the file) - and the
    /// location of listed pack `pack` is rewritten THERE. That file gets the new location and
    /// stays valid; the first file does not change, and the other way round for every later
    /// request to the first file
    SetInSecondHome { pack: usize, loc: String },
}

fn containers(seed: u64, tier: Tier) -> Vec<(String, Logical)> {
    let mut out = vec![];
    let mut k = 0u64;
    let mut mk = |name: String, packaging: Packaging, packs: u16, comp: Comp, k: &mut u64| {
        let mut rng = Rng::derive(seed, "c12-container", *k);
        *k += 1;
        let n = packs as usize + rng.range(0, 2) as usize;
        let contents = (0..n)
            .map(|i| ContentSpec {
                bytes: Arc::new(gen::gen_bytes(&mut rng, i, 8 + i % 23, Flavor::Text)),
                hint: if comp == Comp::None { Hint::No } else { Hint::Yes },
                src: SrcKind::Cursor,
                pack: 1 + (i as u16 % packs),
            })
            .collect();
        (
            name,
            Logical {
                comp,
                packaging,
                n_packs: packs,
                contents,
                schema: SchemaSpec {
                    key_prefix: 1,
                    store: StoreKind::Plain,
                    variants: false,
                    key_pad: 0,
                },
                dedup: false,
                aux_seed: rng.next_u64(),
                opts: Default::default(),
            },
        )
    };
    for packs in [1u16, 2, 3, 5] {
        out.push(mk(format!("c12-loose-p{packs}"), Packaging::Loose, packs, Comp::None, &mut k));
        out.push(mk(format!("c12-concat-p{packs}"), Packaging::Concat, packs, Comp::Zstd(3), &mut k));
    }
    // a container with no content pack at all: its manifest lists exactly one pack (the directory)
    out.push((
        "c12-loose-p0".to_string(),
        Logical {
            comp: Comp::None,
            packaging: Packaging::Loose,
            n_packs: 0,
            contents: vec![],
            schema: SchemaSpec {
                key_prefix: 1,
                store: StoreKind::Plain,
                variants: false,
                key_pad: 0,
            },
            dedup: false,
            aux_seed: seed ^ 0x12_00,
            opts: Default::default(),
        },
    ));
    // a second concat order (manifest at another offset inside the container)
    out.push(mk("c12-concat-p3-b".into(), Packaging::Concat, 3, Comp::None, &mut k));
    out.push(mk("c12-concat-p4-c".into(), Packaging::Concat, 4, Comp::Lz4(3), &mut k));
    out.push(mk("c12-basic-one".into(), Packaging::BasicOne, 1, Comp::Zstd(3), &mut k));
    // BasicCreator's other packagings: manifest + directory in a container, or a bare manifest
    out.push(mk("c12-basic-two".into(), Packaging::BasicTwo, 1, Comp::None, &mut k));
    out.push(mk("c12-basic-noconcat".into(), Packaging::BasicNoConcat, 1, Comp::Zstd(3), &mut k));
    // many listed packs (pack-info table longer than 55 slots)
    let many = if tier == Tier::Quick { 64 } else { 90 };
    if tier == Tier::Thorough {
        // a manifest whose head (headers, per-pack check infos, value store) exceeds 64 KiB
        out.push(mk("c12-loose-p1900".into(), Packaging::Loose, 1900, Comp::None, &mut k));
    }
    out.push(mk(format!("c12-loose-p{many}"), Packaging::Loose, many, Comp::None, &mut k));
    out.push(mk(format!("c12-concat-p{many}"), Packaging::Concat, many, Comp::None, &mut k));
    // a pack-info table that crosses 64 KiB (the chunk in which the manifest's global check reads
    // it): exactly one slot straddles the boundary, and histories are biased towards it
    out.push(mk("c12-loose-p300".into(), Packaging::Loose, 300, Comp::None, &mut k));
    // the directory pack need not be the first pack the manifest lists, pack ids need not be
    // contiguous, and content packs need not be listed by id
    for (name, packaging, packs, absent, shuffle) in [
        ("c12-loose-p3-dir-not-first", Packaging::Loose, 3u16, 0u32, false),
        ("c12-concat-p2-dir-not-first", Packaging::Concat, 2, 0, true),
        ("c12-loose-p5-sparse-ids-dir-not-first", Packaging::Loose, 5, 0b01010, true),
        ("c12-concat-p4-sparse-ids", Packaging::Concat, 4, 0b0110, false),
    ] {
        let (n, mut l) = mk(name.into(), packaging, packs, Comp::None, &mut k);
        // contents of absent packs move to pack 1
        for c in l.contents.iter_mut() {
            if absent & (1 << (c.pack - 1)) != 0 {
                c.pack = 1;
            }
        }
        l.opts.absent_ids = absent;
        l.opts.dir_not_first = name.contains("dir-not-first");
        l.opts.shuffle_manifest = shuffle;
        out.push((n, l));
    }
    // manifests "another writer" produced: the reserved byte of every pack description is not
    // zero (the image is patched and re-signed after creation, see load_image)
    out.push(mk("c12-loose-p3-foreign-writer".into(), Packaging::Loose, 3, Comp::None, &mut k));
    out.push(mk("c12-concat-p2-foreign-writer".into(), Packaging::Concat, 2, Comp::Zstd(3), &mut k));
    out
}

const MULTI: [&str; 5] = ["é", "ß", "→", "日", "😀"];

fn gen_location(rng: &mut Rng) -> String {
    let target = match rng.below(10) {
        0 => 0,
        1 => 1,
        2 => 212,
        3 | 4 => 213,
        5 => rng.range(200, 213) as usize,
        _ => rng.range(0, 213) as usize,
    };
    let mut s = String::new();
    if rng.chance(1, 8) {
        // what else the format allows as a location: a URL with a scheme, an absolute path -
        // also one that points below the directory of the manifest itself ("<DIR>" is replaced by
        // that directory when the operation runs)
        let tail: String = (0..rng.range(1, 12)).map(|_| (b'a' + rng.below(26) as u8) as char).collect();
        return match rng.below(8) {
            0 => format!("https://packs.example.org/{tail}/p.jbkc"),
            1 => format!("file:///srv/jbk/{tail}.jbkc"),
            2 => format!("s3://bucket-{tail}/p.jbkc"),
            3 => format!("x-jbk+custom.v1://{tail}"),
            4 => format!("/abs/{tail}/p.jbkc"),
            5 => format!("<DIR>/packs/{tail}.jbkc"),
            6 => format!("<DIR>/{tail}.jbkc"),
            // a path through something that is a regular file (looking it up says "not a
            // directory", not "no such file")
            7 if rng.chance(1, 2) => format!("<ENTRY>/{tail}.jbkc"),
            _ => format!("file:{tail}.jbkc"),
        };
    }
    if rng.chance(1, 4) {
        // a path with several components
        let parts = rng.range(2, 5);
        for i in 0..parts {
            if i > 0 {
                s.push('/');
            }
            for _ in 0..rng.range(1, 8) {
                s.push((b'a' + rng.below(26) as u8) as char);
            }
        }
        s.push_str(".jbkc");
        s.truncate(213);
        return s;
    }
    let multibyte = rng.chance(1, 2);
    while s.len() < target {
        let left = target - s.len();
        if multibyte && rng.chance(1, 3) {
            let m = *rng.pick(&MULTI);
            if m.len() <= left {
                s.push_str(m);
                continue;
            }
        }
        s.push((b'a' + rng.below(26) as u8) as char);
    }
    // make strings that END in a multi-byte character at the boundary likely
    if multibyte && target >= 4 && rng.chance(1, 2) {
        let m = *rng.pick(&MULTI);
        while s.len() + m.len() > target {
            s.pop();
        }
        s.push_str(m);
        while s.len() < target {
            s.push('z');
        }
    }
    debug_assert!(s.len() <= 213);
    s
}

fn gen_history(rng: &mut Rng, n_listed: usize, tier: Tier, boundary: &[usize], file_len: u64) -> Vec<Op> {
    let len = rng.range(1, if tier == Tier::Quick { 10 } else { 16 }) as usize;
    let mut ops = vec![];
    // one history in five runs into a file size limit somewhere
    let limit_at = if rng.chance(1, 5) { Some(rng.usize_below(len)) } else { None };
    if rng.chance(1, 6) {
        ops.push(Op::AdvisoryLock {
            exclusive: Some(rng.chance(1, 2)),
        });
    }
    // bias towards the same pack rewritten several times (long then short), and the last slot
    let mut hot = if rng.chance(1, 3) { n_listed - 1 } else { rng.usize_below(n_listed) };
    if !boundary.is_empty() && rng.chance(1, 2) {
        // a pack whose description straddles a 64 KiB boundary of the manifest
        hot = *rng.pick(boundary);
    }
    for i in 0..len {
        if limit_at == Some(i) {
            ops.push(Op::FileSizeLimit {
                bytes: rng.below(file_len + 300),
            });
        }
        if rng.chance(1, 8) {
            ops.push(Op::NamedThrough { how: rng.below(5) as u8 });
        }
        if rng.chance(1, 12) {
            ops.push(Op::Overlong {
                pack: rng.usize_below(n_listed),
                len: *rng.pick(&[214usize, 215, 216, 217, 255, 256, 300, 70000]),
            });
        }
        match rng.below(10) {
            0 => ops.push(Op::SetUnknown {
                uuid_seed: rng.next_u64(),
                loc: gen_location(rng),
            }),
            1 => ops.push(Op::RestoreAll),
            2 if rng.chance(1, 2) => ops.push(Op::SetEquivalent {
                pack: hot,
                how: rng.below(4) as u8,
            }),
            2..=5 => ops.push(Op::Set {
                pack: hot,
                loc: gen_location(rng),
            }),
            _ => ops.push(Op::Set {
                pack: rng.usize_below(n_listed),
                loc: gen_location(rng),
            }),
        }
    }
    ops
}

#[derive(Clone, Debug, PartialEq)]
struct SlotInfo {
    uuid: uuid::Uuid,
    kind: String,
    /// everything but the location
    rest: String,
    location: String,
}

fn info_of(i: &jubako::reader::PackInfo) -> SlotInfo {
    SlotInfo {
        uuid: i.uuid,
        kind: format!("{:?}", i.pack_kind),
        rest: format!(
            "size={} id={} kind={:?} group={} free={} check@{:?}",
            i.pack_size.into_u64(),
            i.pack_id.into_u64(),
            i.pack_kind,
            i.pack_group,
            i.free_data_id.into_u64(),
            i.check_info_pos
        ),
        location: i.pack_location.as_str().to_string(),
    }
}

/// Read the manifest of `file` (a stand-alone manifest or a container holding one).
fn read_manifest(file: &Path) -> Result<(Vec<SlotInfo>, bool, Option<bool>), String> {
    let cp = jubako::tools::open_pack(file).map_err(|e| format!("open_pack: {}", dump::err_class(&e)))?;
    let container_check = if cp.pack_count().into_u64() > 1 {
        Some(cp.check().map_err(|e| format!("ContainerPack::check: {}", dump::err_class(&e)))?)
    } else {
        None
    };
    let reader = cp
        .get_manifest_pack_reader()
        .map_err(|e| format!("get_manifest_pack_reader: {}", dump::err_class(&e)))?
        .ok_or("no manifest in file")?;
    let m = jubako::reader::ManifestPack::new(reader)
        .map_err(|e| format!("ManifestPack::new: {}", dump::err_class(&e)))?;
    let mut infos = vec![info_of(m.get_directory_pack_info())];
    for i in m.get_pack_infos() {
        infos.push(info_of(i));
    }
    let check = m.check().map_err(|e| format!("ManifestPack::check: {}", dump::err_class(&e)))?;
    Ok((infos, check, container_check))
}

fn strip_locations(d: &Dump) -> Vec<(String, Leaf)> {
    d.0.iter()
        .map(|(p, l)| {
            if p.starts_with("manifest/packinfo[") || p == "manifest/dirinfo" || p.starts_with("manifest/info_by_") {
                if let Leaf::Val(s) = l {
                    let cut = s.find(" loc=").unwrap_or(s.len());
                    return (p.clone(), Leaf::Val(s[..cut].to_string()));
                }
            }
            if p.starts_with("pack[") {
                if let Leaf::Missing(s) = l {
                    let cut = s.find(" loc=").unwrap_or(s.len());
                    return (p.clone(), Leaf::Missing(s[..cut].to_string()));
                }
            }
            (p.clone(), l.clone())
        })
        .collect()
}

struct Image {
    name: String,
    desc: String,
    files: Vec<(String, Vec<u8>)>,
    spec: DumpSpec,
    pristine: Dump,
    one_file: bool,
}

/// how often the file size limit made a rewrite fail (evidence: faults that actually fired)
static REFUSED: std::sync::atomic::AtomicU64 = std::sync::atomic::AtomicU64::new(0);
static NAMED_OTHERWISE: std::sync::atomic::AtomicU64 = std::sync::atomic::AtomicU64::new(0);
static OVERLONG: std::sync::atomic::AtomicU64 = std::sync::atomic::AtomicU64::new(0);
static CLI_REQUESTS: std::sync::atomic::AtomicU64 = std::sync::atomic::AtomicU64::new(0);
static SECOND_HOME: std::sync::atomic::AtomicU64 = std::sync::atomic::AtomicU64::new(0);

/// One rewrite request through `jbk locate <file> <uuid> <location>`; the tool's answer is turned
/// into what `tools::set_location` would have returned: (pack kind, old location), "not listed",
/// or an error (anything else the tool said, or a death by signal).
fn set_location_by_cli(file: &Path, uuid: uuid::Uuid, loc: &str) -> Result<Option<(String, String)>, String> {
    let cli = simcore::jbk_cli();
    let u = uuid.to_string();
    let (out, err, how) = simcore::run_jbk_cli(&cli, &["locate".as_ref(), file.as_os_str(), u.as_ref(), loc.as_ref()]);
    CLI_REQUESTS.fetch_add(1, std::sync::atomic::Ordering::Relaxed);
    if how != "exit:0" {
        return Err(format!("jbk locate ended with {how}: {}", err.lines().next().unwrap_or("")));
    }
    if err.contains("is not in the manifest") && out.trim().is_empty() {
        return Ok(None);
    }
    let tail = format!("` to `{loc}`\n");
    if let (Some(rest), true) = (out.strip_prefix("Change "), out.ends_with(&tail)) {
        let rest = &rest[..rest.len() - tail.len()];
        let marker = format!(" pack {u} location from `");
        if let Some(at) = rest.find(&marker) {
            return Ok(Some((rest[..at].to_string(), rest[at + marker.len()..].to_string())));
        }
    }
    Err(format!("jbk locate said: {}", err.lines().next().or(out.lines().next()).unwrap_or("nothing")))
}

/// `jbk locate <file> <uuid>`: the location the tool shows for that pack (None when its output
/// has no such line).
fn location_shown_by_cli(file: &Path, uuid: uuid::Uuid, expected: &str) -> Result<bool, String> {
    let cli = simcore::jbk_cli();
    let u = uuid.to_string();
    let (out, err, how) = simcore::run_jbk_cli(&cli, &["locate".as_ref(), file.as_os_str(), u.as_ref()]);
    if how != "exit:0" {
        return Err(format!("ended with {how}"));
    }
    if !out.contains("declared location `") {
        return Err(format!("printed no location: {}", err.lines().next().unwrap_or("nothing on standard error either")));
    }
    Ok(out.contains(&format!("pack {u} has declared location `{expected}`\n")) || out.contains(&format!("pack {u} (with declared location `{expected}`) is located in ")))
}

/// Run `f` while the process may not grow or write any file beyond `limit` bytes (soft
/// RLIMIT_FSIZE; SIGXFSZ is ignored process-wide by the worker, so the write fails with EFBIG).
fn with_file_size_limit<T>(limit: Option<u64>, f: impl FnOnce() -> T) -> T {
    let Some(l) = limit else { return f() };
    // (the limit is lifted again even when `f` panics: the harness writes files afterwards)
    struct Restore(libc::rlimit);
    impl Drop for Restore {
        fn drop(&mut self) {
            unsafe {
                libc::setrlimit(libc::RLIMIT_FSIZE, &self.0);
            }
        }
    }
    unsafe {
        let mut old: libc::rlimit = std::mem::zeroed();
        libc::getrlimit(libc::RLIMIT_FSIZE, &mut old);
        let new = libc::rlimit {
            rlim_cur: l,
            rlim_max: old.rlim_max,
        };
        libc::setrlimit(libc::RLIMIT_FSIZE, &new);
        let _restore = Restore(old);
        f()
    }
}

/// Where each pack description (in the reader's order: directory pack first, then the content
/// packs as `get_pack_infos` lists them) sits on disk: index into the scanner's slot list.
fn slots_of(bytes: &[u8], mspan: &layout::PackSpan, model: &[SlotInfo]) -> Vec<usize> {
    model
        .iter()
        .map(|m| {
            mspan
                .info_slots
                .iter()
                .position(|s| {
                    let a = (mspan.start + s) as usize;
                    bytes.get(a..a + 16) == Some(&m.uuid.as_bytes()[..])
                })
                .unwrap_or_else(|| simcore::harness_error("C12: a listed pack has no slot the scanner can find"))
        })
        .collect()
}

/// Model indices of the packs whose 256-byte description contains a multiple of 64 KiB
/// (relative to the start of the manifest pack).
fn boundary_packs(img: &Image) -> Vec<usize> {
    let bytes = &img.files[0].1;
    let spans = layout::scan_file(bytes);
    let Some(mspan) = spans.iter().find(|s| s.kind == b'm') else { return vec![] };
    if mspan.size < 65536 {
        return vec![];
    }
    // the reader's order, from the manifest itself
    let dir = std::env::temp_dir().join(format!("c12-boundary-{}", std::process::id()));
    let _ = std::fs::create_dir_all(&dir);
    let f = dir.join(&img.files[0].0);
    std::fs::write(&f, bytes).unwrap();
    let model = read_manifest(&f).map(|x| x.0).unwrap_or_default();
    let _ = std::fs::remove_dir_all(&dir);
    let slot_of = slots_of(bytes, mspan, &model);
    (0..model.len())
        .filter(|p| {
            let a = mspan.info_slots[slot_of[*p]];
            a / 65536 != (a + 255) / 65536
        })
        .collect()
}

fn run_history(dir: &Path, img: &Image, ops: &[Op]) -> (Vec<String>, usize) {
    struct BackToRoot;
    impl Drop for BackToRoot {
        fn drop(&mut self) {
            let _ = std::env::set_current_dir("/");
        }
    }
    let _ = std::env::set_current_dir("/");
    let _back = BackToRoot;
    let mut bad = vec![];
    let _ = std::fs::remove_dir_all(dir);
    std::fs::create_dir_all(dir).unwrap();
    for (n, b) in &img.files {
        std::fs::write(dir.join(n), b).unwrap();
    }
    let entry = dir.join(&img.files[0].0);
    let (mut model, c0, cc0) = match read_manifest(&entry) {
        Ok(x) => x,
        Err(e) => simcore::harness_error(&format!("C12 pristine manifest of {}: {e}", img.name)),
    };
    if !c0 || cc0 == Some(false) {
        // before any rewrite: the manifest the creator wrote does not verify in this configuration
        // (e.g. with short reads on the reader's streams) - a violation of the fault-free part
        return (vec!["step -1 (before any rewrite): the pristine manifest's checks do not verify".into()], 0);
    }
    let original: Vec<String> = model.iter().map(|m| m.location.clone()).collect();
    // where the manifest and its slots are, according to the independent scanner
    let bytes0 = std::fs::read(&entry).unwrap();
    let spans = layout::scan_file(&bytes0);
    let mspan = spans
        .iter()
        .find(|s| s.kind == b'm')
        .unwrap_or_else(|| simcore::harness_error("C12: scanner finds no manifest"))
        .clone();
    let slot_of = slots_of(&bytes0, &mspan, &model);
    let mut prev = bytes0;
    let mut steps = 0;
    // a handle opened before any rewrite: a manifest parsed afresh through it must read what is
    // on disk now (every block is cut from the file when it is parsed)
    let long_lived = jubako::tools::open_pack(&entry).ok();
    // a reader that stays open across the whole history (an application serving contents while an
    // administrator relocates packs): for a one-file container, where every pack lies inside the
    // file, whatever it reads of packs, contents, indexes and entries must stay what was written
    let serving = if img.one_file { jubako::reader::Container::new(&entry).ok() } else { None };
    let mut stale_handle_reads = 0u64;
    // expand RestoreAll into individual sets
    let mut flat: Vec<Op> = vec![];
    for op in ops {
        match op {
            Op::RestoreAll => {
                for (i, loc) in original.iter().enumerate() {
                    flat.push(Op::Set {
                        pack: i,
                        loc: loc.clone(),
                    });
                }
            }
            o => flat.push(o.clone()),
        }
    }
    // a history always ends by restoring everything, so that the full container can be compared
    flat.push(Op::FileSizeLimit { bytes: 0 });
    for (i, loc) in original.iter().enumerate() {
        flat.push(Op::Set {
            pack: i,
            loc: loc.clone(),
        });
    }
    let mut limit: Option<u64> = None;
    let mut lock_holder: Option<std::fs::File> = None;
    // the name under which the caller designates the file (Op::NamedThrough)
    let mut call_path: std::path::PathBuf = entry.clone();
    let mut via_cli = false;
    // the second home of the manifest (built when the history first asks for it) and what its
    // descriptions must read
    let second_home = dir.join("second-home.jbk");
    let mut second_model: Option<Vec<SlotInfo>> = None;
    for (si, op) in flat.iter().enumerate() {
        if let Op::SetInSecondHome { pack, loc } = op {
            if img.one_file || img.files.len() < 2 {
                continue;
            }
            let step = format!("step {si} (set slot {pack} in the manifest's second home, a container made with tools::concat)");
            if second_model.is_none() {
                // made from the files as they are now: the manifest there starts with the current model
                let _ = std::fs::remove_file(&second_home);
                let ins: Vec<std::path::PathBuf> = img.files.iter().map(|(n, _)| dir.join(n)).collect();
                if let Err(e) = jubako::tools::concat(&ins, jubako::Utf8Path::from_path(&second_home).expect("utf8 scratch path")) {
                    simcore::harness_error(&format!("C12: tools::concat of {}: {e}", img.name));
                }
                match read_manifest(&second_home) {
                    Ok((infos, true, cc)) if cc != Some(false) && infos == model => second_model = Some(infos),
                    other => {
                        bad.push(format!("{step}: the container just made of the files does not show their manifest: {:?}", other.map(|(i, c, cc)| (i.len(), c, cc))));
                        return (bad, steps);
                    }
                }
            }
            SECOND_HOME.fetch_add(1, std::sync::atomic::Ordering::Relaxed);
            let sm = second_model.as_mut().unwrap();
            let p = *pack % sm.len();
            let loc: String = loc.chars().filter(|c| *c != '<' && *c != '>').collect();
            match jubako::tools::set_location(&second_home, sm[p].uuid, loc.as_str().into()) {
                Ok(Some((kind, old))) => {
                    if old.as_str() != sm[p].location || format!("{kind:?}") != sm[p].kind {
                        bad.push(format!("{step}: returned ({kind:?}, {:?}), the second home had ({}, {:?})", old.as_str(), sm[p].kind, sm[p].location));
                    }
                    sm[p].location = loc.clone();
                }
                Ok(None) => bad.push(format!("{step}: set_location says the pack is not in the manifest")),
                Err(e) => bad.push(format!("{step}: set_location returned Err({})", dump::err_class(&e))),
            }
            match read_manifest(&second_home) {
                Ok((infos, check, ccheck)) => {
                    if &infos != sm {
                        bad.push(format!("{step}: the second home's pack descriptions differ from what was stored there"));
                    }
                    if !check || ccheck == Some(false) {
                        bad.push(format!("{step}: the second home's checks no longer verify"));
                    }
                }
                Err(e) => bad.push(format!("{step}: the second home no longer opens: {e}")),
            }
            match std::fs::read(&entry) {
                Ok(now) if now == prev => {}
                _ => bad.push(format!("{step}: a request for the second home changed the first file")),
            }
            if !bad.is_empty() {
                return (bad, steps);
            }
            continue;
        }
        if let Op::Route { cli } = op {
            via_cli = *cli;
            continue;
        }
        if let Op::NamedThrough { how } = op {
            let entry_name = &img.files[0].0;
            call_path = match how {
                1 => {
                    let l = dir.join("current-edition.lnk");
                    let _ = std::fs::remove_file(&l);
                    std::os::unix::fs::symlink(entry_name, &l).unwrap_or_else(|e| simcore::harness_error(&format!("C12: symlink: {e}")));
                    l
                }
                2 => {
                    let l = dir.join("second-name.hardlink");
                    let _ = std::fs::remove_file(&l);
                    std::fs::hard_link(&entry, &l).unwrap_or_else(|e| simcore::harness_error(&format!("C12: hard link: {e}")));
                    l
                }
                3 => {
                    let sub = dir.join("sub");
                    let _ = std::fs::create_dir_all(&sub);
                    dir.join("sub").join("..").join(".").join(entry_name)
                }
                4 => {
                    // (every other path the harness uses is absolute; the guard at the top of the
                    // history brings the process back to "/")
                    let _ = std::env::set_current_dir(dir);
                    let level = "d".repeat(200);
                    for _ in 0..24 {
                        let _ = std::fs::create_dir(&level);
                        std::env::set_current_dir(&level).unwrap_or_else(|e| simcore::harness_error(&format!("C12: chdir into the deep directory: {e}")));
                    }
                    let _ = std::fs::remove_file("m.jbkm");
                    std::fs::hard_link(&entry, "m.jbkm").unwrap_or_else(|e| simcore::harness_error(&format!("C12: hard link in the deep directory: {e}")));
                    std::path::PathBuf::from("m.jbkm")
                }
                _ => entry.clone(),
            };
            NAMED_OTHERWISE.fetch_add((*how != 0) as u64, std::sync::atomic::Ordering::Relaxed);
            continue;
        }
        if let Op::Overlong { pack, len } = op {
            let loc = "L".repeat(*len);
            let uuid = model[*pack % model.len()].uuid;
            // (the refusal may be a panic: the process-wide hook is silenced for this one call)
            let hook = std::panic::take_hook();
            std::panic::set_hook(Box::new(|_| {}));
            let r = std::panic::catch_unwind(std::panic::AssertUnwindSafe(|| jubako::tools::set_location(&call_path, uuid, loc.as_str().into())));
            std::panic::set_hook(hook);
            OVERLONG.fetch_add(1, std::sync::atomic::Ordering::Relaxed);
            let step = format!("step {si} (a location of {len} bytes is asked for)");
            if let Ok(Ok(Some(_))) = r {
                bad.push(format!("{step}: set_location says it stored it"));
            }
            match std::fs::read(&entry) {
                Ok(now) if now == prev => {}
                _ => bad.push(format!("{step}: the refused request changed the file")),
            }
            if !bad.is_empty() {
                return (bad, steps);
            }
            continue;
        }
        if let Op::AdvisoryLock { exclusive } = op {
            lock_holder = None;
            if let Some(x) = exclusive {
                use std::os::unix::io::AsRawFd;
                if let Ok(f) = std::fs::File::open(&entry) {
                    unsafe {
                        libc::flock(f.as_raw_fd(), if *x { libc::LOCK_EX } else { libc::LOCK_SH });
                    }
                    lock_holder = Some(f);
                }
            }
            continue;
        }
        if let Op::FileSizeLimit { bytes } = op {
            limit = if *bytes == 0 { None } else { Some(*bytes) };
            continue;
        }
        steps += 1;
        let here = dir.to_string_lossy().to_string();
        let resolve = |l: &String| -> String {
            let r = l.replace("<DIR>", &here).replace("<ENTRY>", &img.files[0].0);
            if r.len() <= 213 {
                r
            } else {
                l.replace("<DIR>", "/d").replace("<ENTRY>", &img.files[0].0)
            }
        };
        let (uuid, loc, target) = match op {
            Op::Set { pack, loc } => (model[*pack].uuid, resolve(loc), Some(*pack)),
            Op::SetUnknown { uuid_seed, loc } => {
                let mut b = [0u8; 16];
                Rng::derive(*uuid_seed, "c12-unknown-uuid", 0).fill(&mut b);
                (uuid::Uuid::from_bytes(b), resolve(loc), None)
            }
            Op::RestoreAll | Op::FileSizeLimit { .. } | Op::AdvisoryLock { .. } | Op::NamedThrough { .. } | Op::Overlong { .. } | Op::Route { .. } | Op::SetInSecondHome { .. } => unreachable!(),
            Op::SetEquivalent { pack, how } => {
                let cur = model[*pack].location.clone();
                let new = match how {
                    0 if cur.contains('/') => cur.replacen('/', "//", 1),
                    1 if cur.contains('/') => cur.replacen('/', "/./", 1),
                    2 if !cur.is_empty() && !cur.ends_with('/') => format!("{cur}/"),
                    _ => format!("./{cur}"),
                };
                let new = if new.len() <= 213 && new != cur {
                    new
                } else {
                    // too long for an equivalent spelling: a shorter, different location instead
                    let mut short: String = cur.chars().take(20).collect();
                    short.push('x');
                    short
                };
                (model[*pack].uuid, new, Some(*pack))
            }
        };
        // (a location that begins with '-' would be read as an option by the tool's argument
        // parser, and the file-size limit is a fault of this process: both go by library call)
        let by_cli = via_cli && limit.is_none() && !loc.starts_with('-') && call_path.to_str().is_some();
        let res: Result<Option<(String, String)>, String> = if by_cli {
            set_location_by_cli(&call_path, uuid, &loc)
        } else {
            with_file_size_limit(limit, || jubako::tools::set_location(&call_path, uuid, loc.as_str().into()))
                .map(|o| o.map(|(kind, old)| (format!("{kind:?}"), old.as_str().to_string())))
                .map_err(|e| dump::err_class(&e))
        };
        if limit.is_some() && res.is_err() {
            REFUSED.fetch_add(1, std::sync::atomic::Ordering::Relaxed);
            // the write was refused by the environment and the library said so: nothing is
            // claimed about a rewrite that reported failure; the history ends here
            return (bad, steps);
        }
        let step = format!("step {si} ({}{}{})", if by_cli { "asked through the command-line tool, " } else { "" }, if limit.is_some() { "file size limited, " } else { "" }, match target {
            Some(p) => format!("set slot {p} to {} bytes", loc.len()),
            None => "unknown uuid".to_string(),
        });
        match (&res, target) {
            (Err(e), _) => {
                bad.push(format!("{step}: set_location returned Err({e})"));
                return (bad, steps);
            }
            (Ok(None), Some(_)) => bad.push(format!("{step}: set_location says the pack is not in the manifest")),
            (Ok(Some(_)), None) => bad.push(format!("{step}: set_location changed something for a pack that is not listed")),
            (Ok(None), None) => {}
            (Ok(Some((kind, old))), Some(p)) => {
                if old.as_str() != model[p].location {
                    bad.push(format!(
                        "{step}: returned old location {:?}, model has {:?}",
                        old.as_str(),
                        model[p].location
                    ));
                }
                if *kind != model[p].kind {
                    bad.push(format!("{step}: returned kind {kind}, model has {}", model[p].kind));
                }
                model[p].location = loc.clone();
                if by_cli && p > 0 {
                    // and the tool, asked for that pack, shows the new location (content packs
                    // only: the tool's listing walks the content packs and never shows the
                    // directory pack's description - a limit of the listing, not of the manifest)
                    match location_shown_by_cli(&call_path, uuid, &loc) {
                        Ok(true) => {}
                        Ok(false) => bad.push(format!("{step}: `jbk locate` shows another location than the one just stored")),
                        Err(e) => bad.push(format!("{step}: `jbk locate` asked for the pack {e}")),
                    }
                }
            }
        }
        // re-open and observe
        match read_manifest(&entry) {
            Err(e) => {
                bad.push(format!("{step}: manifest no longer opens: {e}"));
                return (bad, steps);
            }
            Ok((infos, check, ccheck)) => {
                if infos != model {
                    let which = infos
                        .iter()
                        .zip(&model)
                        .position(|(a, b)| a != b)
                        .unwrap_or(usize::MAX);
                    bad.push(format!(
                        "{step}: pack descriptions differ from the model at slot {which}: read {:?}",
                        infos.get(which).map(|i| (&i.rest, &i.location))
                    ));
                }
                if !check {
                    bad.push(format!("{step}: the manifest's global check no longer verifies"));
                }
                if ccheck == Some(false) {
                    bad.push(format!("{step}: ContainerPack::check of the file no longer verifies"));
                }
            }
        }
        if let Some(h) = &long_lived {
            match h
                .get_manifest_pack_reader()
                .ok()
                .flatten()
                .map(jubako::reader::ManifestPack::new)
            {
                Some(Ok(m)) => {
                    let mut infos = vec![info_of(m.get_directory_pack_info())];
                    for i in m.get_pack_infos() {
                        infos.push(info_of(i));
                    }
                    // observed, not judged: a rewrite by temporary file + rename (a legitimate,
                    // even safer, implementation) leaves older handles on the old inode
                    if infos != model {
                        stale_handle_reads += 1;
                    }
                }
                _ => stale_handle_reads += 1,
            }
        }
        // byte diff confined to the rewritten pack-info block
        let now = std::fs::read(&entry).unwrap();
        if now.len() != prev.len() {
            bad.push(format!("{step}: file length changed {} -> {}", prev.len(), now.len()));
        } else {
            let changed: Vec<usize> = (0..now.len()).filter(|i| now[*i] != prev[*i]).collect();
            match target {
                None => {
                    if !changed.is_empty() {
                        bad.push(format!("{step}: {} bytes changed for an unknown pack", changed.len()));
                    }
                }
                Some(p) => {
                    let slot = (mspan.start + mspan.info_slots[slot_of[p]]) as usize;
                    if let Some(out) = changed.iter().find(|i| **i < slot || **i >= slot + 256) {
                        bad.push(format!(
                            "{step}: byte {out} changed outside the pack-info block [{slot}, {})",
                            slot + 256
                        ));
                    }
                }
            }
        }
        prev = now;
        // (only while the directory pack's own location is the original one: a container whose
        // directory pack cannot be found is outside every claimed property, see DESIGN 4 / C12)
        // (and only for containers of loose packs: BasicCreator's two-file packagings cannot be read
        // through Container::get_pack on the pinned tree, which is C10's subject)
        if !img.one_file && img.name.contains("loose") && model.len() <= 8 && si % 2 == 0 && model[0].location == original[0] {
            // a container whose packs are separate files: whatever the locations now say, it opens,
            // and its check covers the packs that can be found (no error, no false)
            match jubako::reader::Container::new(&entry) {
                Err(e) => bad.push(format!("{step}: the container no longer opens: {}", dump::err_class(&e))),
                Ok(c) => {
                    for p in 1..=(model.len() as u16 + 6) {
                        if let Err(e) = c.get_pack(jubako::PackId::from(p)) {
                            bad.push(format!("{step}: get_pack({p}) answers Err({}) instead of a pack or 'missing'", dump::err_class(&e)));
                            break;
                        }
                    }
                    match c.check() {
                        Ok(true) => {}
                        other => bad.push(format!("{step}: Container::check() answers {:?}", other.map_err(|e| dump::err_class(&e)))),
                    }
                }
            }
        }
        if let (Some(c), true) = (&serving, si % 3 == 1) {
            let mut d = Dump::default();
            dump::dump_opened(c, &img.spec, &mut d);
            let want: Vec<(String, Leaf)> = strip_locations(&img.pristine)
                .into_iter()
                .filter(|(p, _)| !p.starts_with("manifest/") && !p.starts_with("file/") && p != "open")
                .collect();
            let got = strip_locations(&d);
            if got != want {
                let first = want.iter().zip(got.iter()).find(|(a, b)| a != b).map(|(a, b)| format!("{}: {} -> {}", a.0, a.1.short(), b.1.short()));
                bad.push(format!(
                    "{step}: a container that was open before the history started reads something else now: {}",
                    first.unwrap_or_else(|| format!("{} leaves instead of {}", got.len(), want.len()))
                ));
            }
        }
        if img.one_file && si % 3 == 0 {
            // packs are found by uuid inside the file: everything still reads whatever the locations say
            let d = dump::dump_container(&entry, &img.spec);
            if strip_locations(&d) != strip_locations(&img.pristine) {
                let diffs = dump::structural_diff(&img.pristine, &d);
                bad.push(format!(
                    "{step}: container content changed: {}",
                    diffs.first().cloned().unwrap_or_else(|| "a check leaf".into())
                ));
            }
        }
        if !bad.is_empty() {
            return (bad, steps);
        }
    }
    // everything restored: the whole container must read exactly as before
    let d = dump::dump_container(&entry, &img.spec);
    if d != img.pristine {
        let diffs = dump::structural_diff(&img.pristine, &d);
        bad.push(format!(
            "after restoring every location the container differs from the pristine one: {}",
            diffs.first().cloned().unwrap_or_else(|| "a check leaf".into())
        ));
    }
    let now = std::fs::read(&entry).unwrap();
    if now != img.files[0].1 {
        bad.push("after restoring every location the file is not byte-identical to the original".into());
    }
    let _ = stale_handle_reads;
    (bad, steps)
}

fn histories_per_image(tier: Tier) -> u64 {
    match tier {
        Tier::Quick => 160,
        Tier::Thorough => 2500,
    }
}

fn ops_json(ops: &[Op]) -> Value {
    json!(ops
        .iter()
        .map(|o| match o {
            Op::Set { pack, loc } => json!({"set": pack, "loc": loc}),
            Op::SetUnknown { uuid_seed, loc } => json!({"unknown": uuid_seed, "loc": loc}),
            Op::RestoreAll => json!("restore-all"),
            Op::SetEquivalent { pack, how } => json!({"equivalent": pack, "how": how}),
            Op::FileSizeLimit { bytes } => json!({"file-size-limit": bytes}),
            Op::AdvisoryLock { exclusive } => json!({"advisory-lock": exclusive}),
            Op::NamedThrough { how } => json!({"named-through": how}),
            Op::Overlong { pack, len } => json!({"overlong": pack, "len": len}),
            Op::Route { cli } => json!({"route-cli": cli}),
            Op::SetInSecondHome { pack, loc } => json!({"second-home-set": pack, "loc": loc}),
        })
        .collect::<Vec<_>>())
}

fn ops_from_json(v: &Value) -> Vec<Op> {
    v.as_array()
        .unwrap()
        .iter()
        .map(|o| {
            if o == "restore-all" {
                Op::RestoreAll
            } else if let Some(p) = o.get("second-home-set") {
                Op::SetInSecondHome { pack: p.as_u64().unwrap() as usize, loc: o["loc"].as_str().unwrap().to_string() }
            } else if let Some(x) = o.get("route-cli") {
                Op::Route { cli: x.as_bool().unwrap_or(false) }
            } else if let Some(x) = o.get("advisory-lock") {
                Op::AdvisoryLock { exclusive: x.as_bool() }
            } else if let Some(x) = o.get("named-through") {
                Op::NamedThrough { how: x.as_u64().unwrap() as u8 }
            } else if let Some(p) = o.get("overlong") {
                Op::Overlong { pack: p.as_u64().unwrap() as usize, len: o["len"].as_u64().unwrap() as usize }
            } else if let Some(b) = o.get("file-size-limit") {
                Op::FileSizeLimit {
                    bytes: b.as_u64().unwrap(),
                }
            } else if let Some(p) = o.get("equivalent") {
                Op::SetEquivalent {
                    pack: p.as_u64().unwrap() as usize,
                    how: o["how"].as_u64().unwrap() as u8,
                }
            } else if let Some(p) = o.get("set") {
                Op::Set {
                    pack: p.as_u64().unwrap() as usize,
                    loc: o["loc"].as_str().unwrap().to_string(),
                }
            } else {
                Op::SetUnknown {
                    uuid_seed: o["unknown"].as_u64().unwrap(),
                    loc: o["loc"].as_str().unwrap().to_string(),
                }
            }
        })
        .collect()
}

fn load_image(hooks: &FHooks, seed: u64, name: &str, logical: &Logical, dir: &Path) -> Image {
    hooks.set_short_reads(0, 0);
    let (built, pristine) =
        crate::build_image(hooks, seed, name, logical, dir).unwrap_or_else(|e| simcore::harness_error(&e));
    let mism = dump::check_against_model(&pristine, &built.model, crate::contents_readable(logical.packaging));
    if !mism.is_empty() {
        simcore::harness_error(&format!("C12 image {name}: {}", mism[0]));
    }
    let mut pristine = pristine;
    if name.contains("foreign-writer") {
        let entry = &built.files[0];
        let mut bytes = std::fs::read(entry).unwrap();
        let spans = layout::scan_file(&bytes);
        let mspan = spans
            .iter()
            .find(|s| s.kind == b'm')
            .unwrap_or_else(|| simcore::harness_error("C12: no manifest to patch"))
            .clone();
        simcore::fault::foreign_writer_manifest(&mut bytes, &mspan);
        std::fs::write(entry, &bytes).unwrap();
        // the patched manifest must be a valid one for the library under test
        match read_manifest(entry) {
            Ok((infos, true, cc)) if cc != Some(false) && infos.iter().all(|i| !i.rest.contains("group=0 ")) => {}
            other => simcore::harness_error(&format!(
                "C12: the re-signed foreign-writer manifest of {name} is not accepted by the library: {:?}",
                other.map(|(i, c, cc)| (i.len(), c, cc))
            )),
        }
        pristine = dump::dump_container(entry, &DumpSpec::for_model(&built.model));
        if pristine.get("check") != Some(&Leaf::Val("true".into())) {
            simcore::harness_error(&format!("C12: container of {name} does not verify after re-signing"));
        }
    }
    Image {
        name: name.to_string(),
        desc: gen::describe(logical),
        files: built
            .files
            .iter()
            .map(|f| {
                (
                    f.file_name().unwrap().to_string_lossy().to_string(),
                    std::fs::read(f).unwrap(),
                )
            })
            .collect(),
        spec: DumpSpec::for_model(&built.model),
        pristine,
        one_file: built.files.len() == 1,
    }
}

/// Shrink a failing history: drop operations while the same first complaint class persists.
fn minimise(dir: &Path, img: &Image, ops: &[Op], class: &str) -> Vec<Op> {
    let mut cur = ops.to_vec();
    let mut i = 0;
    while i < cur.len() {
        let mut cand = cur.clone();
        cand.remove(i);
        let (bad, _) = run_history(dir, img, &cand);
        if bad.first().map(|b| classify(b)) == Some(class.to_string()) {
            cur = cand;
        } else {
            i += 1;
        }
    }
    cur
}

fn classify(msg: &str) -> String {
    let after = msg.split_once(": ").map(|(_, b)| b).unwrap_or(msg);
    after
        .chars()
        .map(|c| if c.is_ascii_digit() { 'N' } else { c })
        .take(70)
        .collect()
}

pub fn worker_main(args: &Args, w: usize, n: usize) -> ! {
    let hooks = FHooks::install();
    unsafe {
        libc::signal(libc::SIGXFSZ, libc::SIG_IGN);
    }
    let scratch = simcore::Scratch::new(&format!("C12-w{w}"));
    let only = std::env::var("VERIF_ONLY_IMAGE").ok();
    for (ii, (name, logical)) in containers(args.seed, args.tier).into_iter().enumerate() {
        if let Some(o) = &only {
            if !name.contains(o.as_str()) {
                continue;
            }
        }
        let dir = scratch.sub(&format!("img{ii}"));
        let img = load_image(&hooks, args.seed, &name, &logical, &dir);
        let n_listed = logical.n_packs as usize + 1 - logical.opts.absent_ids.count_ones() as usize;
        let boundary = boundary_packs(&img);
        // the very large manifests get fewer histories (every step re-reads the whole manifest)
        let total = if n_listed > 1000 { 160 } else if n_listed > 200 { histories_per_image(args.tier).min(160) } else { histories_per_image(args.tier) };
        println!(
            "{}",
            json!({"t":"image","ii":ii,"image":img.name,"desc":img.desc,"histories":total,"listed_packs":n_listed,"packs_straddling_64KiB":boundary,
                   "file_bytes": img.files[0].1.len(), "one_file": img.one_file})
        );
        let lo = total * w as u64 / n as u64;
        let hi = total * (w as u64 + 1) / n as u64;
        let case_dir = scratch.path.join(format!("case-{ii}"));
        let mut minimised_so_far = 0;
        for h in lo..hi {
            // every other history runs with seeded short reads on jubako's reader-side streams
            hooks.set_short_reads(if h % 2 == 1 { 300 } else { 0 }, h);
            let mut rng = Rng::derive(args.seed, &format!("c12-history-{name}"), h);
            let mut ops = gen_history(&mut rng, n_listed, args.tier, &boundary, img.files[0].1.len() as u64);
            // one history in four is carried out, from some point on (and possibly only up to a
            // later point), through the command-line tool (own sub-stream: the histories themselves
            // are the ones drawn before this route existed)
            let mut route_rng = Rng::derive(args.seed, &format!("c12-route-{name}"), h);
            if n_listed <= 200 && route_rng.chance(1, 4) {
                let at = route_rng.usize_below(ops.len() + 1);
                ops.insert(at, Op::Route { cli: true });
                if route_rng.chance(1, 3) {
                    let back = at + 1 + route_rng.usize_below(ops.len() - at);
                    ops.insert(back, Op::Route { cli: false });
                }
            }
            // one history in five of a container of loose packs also relocates packs in the
            // manifest's second home, between the requests to the first file
            if img.files.len() >= 2 && !img.one_file && n_listed <= 8 && route_rng.chance(1, 5) {
                for _ in 0..route_rng.range(1, 4) {
                    let at = route_rng.usize_below(ops.len() + 1);
                    ops.insert(at, Op::SetInSecondHome { pack: route_rng.usize_below(n_listed), loc: gen_location(&mut route_rng) });
                }
            }
            CLI_REQUESTS.store(0, std::sync::atomic::Ordering::Relaxed);
            SECOND_HOME.store(0, std::sync::atomic::Ordering::Relaxed);
            REFUSED.store(0, std::sync::atomic::Ordering::Relaxed);
            NAMED_OTHERWISE.store(0, std::sync::atomic::Ordering::Relaxed);
            OVERLONG.store(0, std::sync::atomic::Ordering::Relaxed);
            let r = std::panic::catch_unwind(std::panic::AssertUnwindSafe(|| run_history(&case_dir, &img, &ops)));
            let refused = REFUSED.load(std::sync::atomic::Ordering::Relaxed);
            let named_otherwise = NAMED_OTHERWISE.load(std::sync::atomic::Ordering::Relaxed);
            let overlong = OVERLONG.load(std::sync::atomic::Ordering::Relaxed);
            let cli_requests = CLI_REQUESTS.load(std::sync::atomic::Ordering::Relaxed);
            let second_home = SECOND_HOME.load(std::sync::atomic::Ordering::Relaxed);
            let (bad, steps) = match r {
                Ok(x) => x,
                Err(_) => {
                    crate::harness_panic_guard("C12 history");
                    (vec![format!("step ?: panic at {}", crate::last_panic_location())], 0)
                }
            };
            let mut min_ops = None;
            // minimise only the first few failing histories of a worker (each attempt re-runs a history)
            if bad.first().is_some() {
                minimised_so_far += 1;
            }
            if let (Some(first), true) = (bad.first(), minimised_so_far <= 3) {
                let class = classify(first);
                let m = std::panic::catch_unwind(std::panic::AssertUnwindSafe(|| {
                    minimise(&case_dir, &img, &ops, &class)
                }))
                .unwrap_or_else(|_| ops.clone());
                min_ops = Some(ops_json(&m));
            }
            println!(
                "{}",
                json!({"t":"case","ii":ii,"image":img.name,"h":h,"ops":ops_json(&ops),"steps":steps,"bad":bad,
                       "minimised": min_ops, "write_refused_by_file_size_limit": refused, "named_otherwise": named_otherwise, "overlong_requests": overlong, "requests_through_the_command_line_tool": cli_requests, "requests_to_the_second_home": second_home,
                       "file_size_limited": ops.iter().any(|o| matches!(o, Op::FileSizeLimit { .. })),
                       "max_loc": ops.iter().map(|o| match o { Op::Set{loc,..} | Op::SetUnknown{loc,..} => loc.len(), _ => 0}).max().unwrap_or(0)})
            );
        }
        let _ = std::fs::remove_dir_all(&case_dir);
        let _ = std::fs::remove_dir_all(&dir);
    }
    proc::flush_stdout();
    drop(scratch);
    std::process::exit(0)
}

pub fn parent_main(args: &Args) -> ! {
    let id = "C12";
    let mut ev = Evidence::new(id, args.tier.name(), args.seed, "exploration");
    let known = report::load_known_findings();
    let n = proc::n_workers();
    let mut wargs: Vec<String> = vec![
        "c12".into(),
        "--tier".into(),
        args.tier.name().into(),
        "--seed".into(),
        args.seed.to_string(),
    ];
    wargs.extend(args.rest.iter().cloned());
    let outs = proc::fan_out(n, &wargs);
    for o in &outs {
        if !o.ok {
            simcore::harness_error(&format!("worker {} failed: {}", o.index, o.status));
        }
    }
    let mut images: BTreeMap<u64, Value> = BTreeMap::new();
    let mut recs: Vec<Value> = vec![];
    for o in outs {
        for line in o.lines {
            let Ok(v) = serde_json::from_str::<Value>(&line) else { continue };
            if v["t"] == "image" {
                images.entry(v["ii"].as_u64().unwrap()).or_insert(v);
            } else if v["t"] == "case" {
                recs.push(v);
            }
        }
    }
    recs.sort_by_key(|r| (r["ii"].as_u64().unwrap_or(0), r["h"].as_u64().unwrap_or(0)));
    let run_digest = report::digest_records(recs.iter());
    println!("DIGEST {id} {run_digest}");
    let mut violations: Vec<(String, Value)> = vec![];
    let mut known_hits: BTreeMap<String, (u64, String)> = BTreeMap::new();
    let mut total_steps = 0u64;
    let mut boundary = 0u64;
    for r in &recs {
        ev.evaluations += 1;
        total_steps += r["steps"].as_u64().unwrap_or(0);
        if r["max_loc"].as_u64().unwrap_or(0) >= 212 {
            boundary += 1;
        }
        let refused = r["write_refused_by_file_size_limit"].as_u64().unwrap_or(0);
        if r["named_otherwise"].as_u64().unwrap_or(0) > 0 {
            ev.fired("environment:file-named-through-symlink/hard-link/dotted-path", r["named_otherwise"].as_u64().unwrap());
        }
        if r["overlong_requests"].as_u64().unwrap_or(0) > 0 {
            ev.fired("request-the-library-must-refuse (location above 213 bytes)", r["overlong_requests"].as_u64().unwrap());
        }
        if r["requests_to_the_second_home"].as_u64().unwrap_or(0) > 0 {
            ev.fired("history:same-manifest-in-a-second-file (tools::concat container) relocated between the requests", r["requests_to_the_second_home"].as_u64().unwrap());
        }
        if r["requests_through_the_command_line_tool"].as_u64().unwrap_or(0) > 0 {
            ev.fired("route:request-made-through-the-jbk-command-line-tool (separate process)", r["requests_through_the_command_line_tool"].as_u64().unwrap());
        }
        if refused > 0 {
            ev.fired("write-refused-by-file-size-limit (EFBIG)", refused);
        }
        if r["file_size_limited"] == true {
            ev.fired("history-under-a-file-size-limit", 1);
        }
        ev.distinct
            .insert(simcore::prng::hash_label(0, &format!("{}|{}", r["image"], r["ops"]), 0));
        if ev.evaluations % 997 == 1 {
            ev.sample(json!({"image": r["image"], "ops": r["ops"], "steps": r["steps"]}));
        }
        if let Some(first) = r["bad"].as_array().and_then(|a| a.first()).and_then(|s| s.as_str()) {
            let kind = r["image"].as_str().unwrap_or("").split('-').nth(1).unwrap_or("").to_string();
            let sig = format!("C12|{kind}|{}", classify(first));
            match report::match_known(&known, id, &sig) {
                Some(k) => {
                    known_hits.entry(k.id.clone()).or_insert((0, k.what.clone())).0 += 1;
                }
                None => violations.push((sig, r.clone())),
            }
        }
    }
    for (kid, (count, what)) in &known_hits {
        println!("KNOWN-FINDING: property={id} {kid}: {what} ({count} cases this run)");
    }
    ev.rule = "manifests = stand-alone .jbkm (1..5 and 64+ listed packs), inside tools::concat containers in seeded pack orders (manifest at varying offsets), inside a BasicCreator one-file container; histories = seeded sequences of 1..10 (thorough: 16) operations from {set_location(listed pack incl. directory, string of 0..213 bytes, ASCII or multi-byte UTF-8, boundary lengths 0/1/212/213), set_location(unknown uuid), restore-all}, always ending with restore-all; after EVERY step the manifest is re-opened and compared with the model (uuid -> location), checks re-run, byte diff confined to the pack-info block; non-trivial/distinct = distinct (manifest, history)".into();
    ev.extra.insert("manifests".into(), json!(images.values().collect::<Vec<_>>()));
    ev.extra.insert("total_steps".into(), json!(total_steps));
    ev.extra.insert("histories_with_boundary_length_locations".into(), json!(boundary));
    ev.extra.insert("workers".into(), json!(n));
    ev.extra.insert("run_digest".into(), json!(run_digest));
    ev.extra.insert(
        "real_vs_stub".into(),
        json!({"real": ["tools::set_location, tools::open_pack, ManifestPack, ContainerPack::check, reader::Container", "file system (tmpfs)"],
               "simulated": ["operation history (seeded), reference model uuid -> location", "OS randomness (seeded)"],
               "stub": []}),
    );
    ev.assumptions.push("no schedule or fault is involved in this property; the check is a history oracle against a reference model".into());
    ev.assumptions.push("files with a foreign prefix are outside set_location's contract (it opens with a header at offset 0) and are not generated".into());
    ev.violations = violations.len() as u64;
    let mut seen = std::collections::BTreeSet::new();
    for (sig, r) in &violations {
        if !seen.insert(sig.clone()) || seen.len() > 10 {
            continue;
        }
        let path = report::write_replay(
            id,
            args.seed,
            &format!("{}-h{}", r["image"].as_str().unwrap_or(""), r["h"]),
            json!({"property": id, "seed": args.seed, "tier": args.tier.name(), "image": r["image"],
                   "ops": r["minimised"], "original_ops": r["ops"], "signature": sig, "bad": r["bad"]}),
        );
        println!("VIOLATION property={id} replay={}", path.display());
        eprintln!("  {sig}");
    }
    if ev.distinct.len() < 2 {
        simcore::harness_error("fewer than 2 histories");
    }
    ev.write().expect("write evidence");
    println!(
        "{id}: {} histories, {} steps, {} known-finding cases, {} new violations, {:.1}s",
        ev.evaluations,
        total_steps,
        known_hits.values().map(|v| v.0).sum::<u64>(),
        violations.len(),
        ev.wall_s()
    );
    std::process::exit(if violations.is_empty() { 0 } else { 1 })
}

pub fn replay_main(_args: &Args, file: &str) -> ! {
    unsafe {
        libc::signal(libc::SIGXFSZ, libc::SIG_IGN);
    }
    let v: Value = serde_json::from_str(&std::fs::read_to_string(file).unwrap_or_else(|e| {
        simcore::harness_error(&format!("cannot read replay file: {e}"))
    }))
    .unwrap_or_else(|e| simcore::harness_error(&format!("replay file does not parse: {e}")));
    let seed = v["seed"].as_u64().unwrap();
    let tier = Tier::parse(v["tier"].as_str().unwrap()).unwrap();
    let image = v["image"].as_str().unwrap().to_string();
    let ops = ops_from_json(&v["ops"]);
    let hooks = FHooks::install();
    let scratch = simcore::Scratch::new("C12-replay");
    let (name, logical) = containers(seed, tier)
        .into_iter()
        .find(|(n, _)| *n == image)
        .unwrap_or_else(|| simcore::harness_error("replay: unknown image"));
    let img = load_image(&hooks, seed, &name, &logical, &scratch.sub("img"));
    let (bad, steps) = run_history(&scratch.path.join("case"), &img, &ops);
    println!("replay {image}: {} operations, {steps} steps", ops.len());
    if bad.is_empty() {
        println!("no violation on replay");
        std::process::exit(0)
    }
    println!("VIOLATION property=C12 replay={file}");
    for b in bad {
        println!("  {b}");
    }
    std::process::exit(1)
}

#[allow(dead_code)]
fn _u(_: &dyn Pack) {}
