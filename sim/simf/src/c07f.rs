//! C07, F-flavour pass: real threads. Two things the T flavour cannot show:
//!  * readers that are themselves workers of rayon's global pool (`par_iter` over contents): the
//!    decompression jobs must not need one of those workers to make progress, or every worker
//!    ends up parked on a cluster nobody decodes. In the T flavour the decompression pool is a
//!    stub, so where the job is spawned is invisible there.
//!  * the same reads on real hardware threads (real memory model) as a cross-check of the bytes.
//! One child process per case; the parent decides "never terminates" with a watchdog (a case
//! takes milliseconds; silence for 30 s is a stall). Wrong bytes, a panic, a signal or a stall
//! is a violation.

use crate::hooks::FHooks;
use crate::Args;
use serde_json::{json, Value};
use simcore::gen::{self, Comp, ContentSpec, Flavor, Hint, Logical, Packaging, SchemaSpec, SrcKind, StoreKind};
use simcore::prng::Rng;
use simcore::report;
use simcore::Tier;
use std::io::Read;
use std::sync::Arc;

#[derive(Clone, Debug)]
struct Case {
    comp: Comp,
    /// threads in rayon's global pool (readers run on them in mode "pool")
    pool: usize,
    n: usize,
    mode: &'static str,
    seed: u64,
}

impl Case {
    fn encode(&self) -> String {
        format!("{}:{}:{}:{}:{}", self.comp.name(), self.pool, self.n, self.mode, self.seed)
    }
    fn decode(s: &str) -> Option<Case> {
        let p: Vec<&str> = s.split(':').collect();
        if p.len() != 5 {
            return None;
        }
        let comp = match p[0] {
            c if c.starts_with("zstd") => Comp::Zstd(3),
            c if c.starts_with("lz4") => Comp::Lz4(3),
            c if c.starts_with("lzma") => Comp::Lzma(1),
            _ => return None,
        };
        Some(Case {
            comp,
            pool: p[1].parse().ok()?,
            n: p[2].parse().ok()?,
            mode: match p[3] {
                "pool" => "pool",
                "frontier" => "frontier",
                _ => "threads",
            },
            seed: p[4].parse().ok()?,
        })
    }
}

fn cases(seed: u64, tier: Tier) -> Vec<Case> {
    let mut out = vec![];
    let mut k = 0;
    let reps = if tier == Tier::Quick { 4 } else { 40 };
    for rep in 0..reps {
        for comp in [Comp::Zstd(3), Comp::Lz4(3), Comp::Lzma(1)] {
            for pool in [1usize, 2, 4] {
                for mode in ["pool", "threads"] {
                    let mut rng = Rng::derive(seed, "c07f-case", k);
                    k += 1;
                    out.push(Case {
                        comp,
                        pool,
                        n: (pool * 3 + rng.range(2, 10) as usize).max(12) + rep,
                        mode,
                        seed: rng.next_u64() >> 1,
                    });
                }
            }
        }
    }
    // many threads reading small ranges of ONE large cluster right behind the decoder's frontier:
    // on real hardware two readers can be between the same two instructions of the reader-side
    // bookkeeping, which no scheduler that switches at synchronisation points can arrange
    for rep in 0..(if tier == Tier::Quick { 2 } else { 12 }) {
        for comp in [Comp::Zstd(3), Comp::Lz4(3)] {
            let mut rng = Rng::derive(seed, "c07f-frontier", k);
            k += 1;
            out.push(Case {
                comp,
                pool: 12,
                n: 2 + rep % 2,
                mode: "frontier",
                seed: rng.next_u64() >> 1,
            });
        }
    }
    out
}

fn logical_for(c: &Case) -> Logical {
    let mut rng = Rng::derive(c.seed, "c07f-logical", 0);
    if c.mode == "frontier" {
        // n large compressible contents, each in a cluster of its own
        let contents = (0..c.n)
            .map(|i| {
                let len = (20 << 20) + rng.range(1, 4 << 20) as usize;
                ContentSpec {
                bytes: Arc::new(gen::gen_bytes(&mut rng, i, len, Flavor::Text)),
                hint: Hint::Yes,
                src: SrcKind::Cursor,
                pack: 1,
            }})
            .collect();
        return Logical {
            comp: c.comp,
            packaging: Packaging::Loose,
            n_packs: 1,
            contents,
            schema: SchemaSpec {
                key_prefix: 1,
                store: StoreKind::Plain,
                variants: false,
                key_pad: 0,
            },
            dedup: false,
            aux_seed: rng.next_u64(),
            opts: Default::default(),
        };
    }
    let contents = (0..c.n)
        .map(|i| {
            let len = rng.range(200, 3000) as usize;
            let flavor = *rng.pick(&[Flavor::Text, Flavor::Random, Flavor::Text]);
            ContentSpec {
                bytes: Arc::new(gen::gen_bytes(&mut rng, i, len, flavor)),
                hint: Hint::Yes,
                src: SrcKind::Cursor,
                pack: 1,
            }
        })
        .collect();
    Logical {
        comp: c.comp,
        packaging: Packaging::Loose,
        n_packs: 1,
        contents,
        schema: SchemaSpec {
            key_prefix: 1,
            store: StoreKind::Plain,
            variants: false,
            key_pad: 0,
        },
        dedup: false,
        aux_seed: rng.next_u64(),
        opts: Default::default(),
    }
}

fn read_all(container: &jubako::reader::Container, model: &gen::Model, i: usize) -> Result<(), String> {
    let c = &model.contents[i];
    let addr = jubako::ContentAddress::new(c.pack.into(), c.content_id.into());
    let region = match container.get_bytes(addr) {
        Ok(Some(jubako::reader::MayMissPack::FOUND(Some(r)))) => r,
        Ok(_) => return Err(format!("content {i}: not found")),
        Err(e) => return Err(format!("content {i}: get_bytes error {e}")),
    };
    let mut v = vec![];
    region
        .stream()
        .read_to_end(&mut v)
        .map_err(|e| format!("content {i}: read error {e}"))?;
    if v != **c.bytes {
        return Err(format!("content {i}: {} bytes read, they differ from the {} stored", v.len(), c.bytes.len()));
    }
    // and the tail through get_slice
    let len = c.bytes.len() as u64;
    let off = len / 2;
    match region.get_slice(jubako::Offset::from(off), (len - off) as usize) {
        Ok(s) if *s == c.bytes[off as usize..] => Ok(()),
        Ok(_) => Err(format!("content {i}: tail slice differs from the stored bytes")),
        Err(e) => Err(format!("content {i}: get_slice error {e}")),
    }
}

pub fn child_main(args: &Args) -> ! {
    let case = Case::decode(&args.rest[0]).unwrap_or_else(|| simcore::harness_error("c07f: bad case"));
    let hooks = FHooks::install();
    let scratch = simcore::Scratch::new(&format!("C07F-{}", std::process::id()));
    // the global pool is what an application using rayon has; its size is the case's knob
    rayon::ThreadPoolBuilder::new()
        .num_threads(case.pool)
        .build_global()
        .unwrap_or_else(|e| simcore::harness_error(&format!("c07f: cannot size the global pool: {e}")));
    hooks.clear_knobs();
    hooks.set_knob("creator_workers", 1);
    hooks.set_knob("cluster_max_blobs", 1);
    simcore::osrand::reseed(case.seed);
    let logical = logical_for(&case);
    let dir = scratch.sub("img");
    let built = gen::build(&logical, &dir, "img", &gen::BuildOpts::default())
        .unwrap_or_else(|e| simcore::harness_error(&format!("c07f: image creation failed: {e}")));
    hooks.clear_knobs();
    let container = jubako::reader::Container::new(&built.entry)
        .unwrap_or_else(|e| simcore::harness_error(&format!("c07f: pristine container does not open: {e}")));
    let model = &built.model;
    let errors: std::sync::Mutex<Vec<String>> = std::sync::Mutex::new(vec![]);
    if case.mode == "frontier" {
        for i in 0..case.n {
            let c = &model.contents[i];
            let addr = jubako::ContentAddress::new(c.pack.into(), c.content_id.into());
            // (a fresh container per content: the cluster is not decoded yet when the readers start)
            let container = jubako::reader::Container::new(&built.entry)
                .unwrap_or_else(|e| simcore::harness_error(&format!("c07f: pristine container does not open: {e}")));
            std::thread::scope(|s| {
                for t in 0..case.pool {
                    let container = &container;
                    let errors = &errors;
                    s.spawn(move || {
                        let r = std::panic::catch_unwind(std::panic::AssertUnwindSafe(|| -> Result<(), String> {
                            let region = match container.get_bytes(addr) {
                                Ok(Some(jubako::reader::MayMissPack::FOUND(Some(r)))) => r,
                                _ => return Err(format!("content {i}: not found")),
                            };
                            let len = c.bytes.len();
                            let mut rng = Rng::derive(case.seed, "c07f-frontier-reader", t as u64);
                            let steps = 6000usize;
                            for j in 0..steps {
                                // ascending offsets, each reader on its own grid
                                let off = (len - 256) / steps * j + rng.range(0, 40) as usize;
                                let l = rng.range(60, 200) as usize;
                                match region.get_slice(jubako::Offset::from(off as u64), l) {
                                    Ok(sl) if sl[..] == c.bytes[off..off + l] => {}
                                    Ok(_) => return Err(format!("content {i}: slice [{off}, +{l}) differs from the stored bytes")),
                                    Err(e) => return Err(format!("content {i}: get_slice({off}, {l}) error {e}")),
                                }
                            }
                            Ok(())
                        }));
                        match r {
                            Ok(Ok(())) => {}
                            Ok(Err(e)) => errors.lock().unwrap().push(e),
                            Err(_) => errors.lock().unwrap().push(format!("content {i}: a reader panicked")),
                        }
                    });
                }
            });
        }
    } else if case.mode == "pool" {
        use rayon::prelude::*;
        // every worker of the pool asks for a cluster nobody has decoded yet, all at once
        (0..case.n).into_par_iter().for_each(|i| {
            if let Err(e) = read_all(&container, model, i) {
                errors.lock().unwrap().push(e);
            }
        });
    } else {
        std::thread::scope(|s| {
            for t in 0..case.pool.max(2) * 2 {
                let container = &container;
                let errors = &errors;
                s.spawn(move || {
                    let mut order: Vec<usize> = (0..case.n).collect();
                    Rng::derive(case.seed, "c07f-order", t as u64).shuffle(&mut order);
                    for i in order {
                        if let Err(e) = read_all(container, model, i) {
                            errors.lock().unwrap().push(e);
                        }
                    }
                });
            }
        });
    }
    let errors = errors.into_inner().unwrap();
    drop(container);
    drop(scratch);
    if let Some(e) = errors.first() {
        println!("WRONG {e}");
        std::process::exit(4)
    }
    std::process::exit(0)
}

fn run_child(case: &Case, watchdog_ms: u64) -> String {
    let exe = std::env::current_exe().unwrap();
    let mut child = std::process::Command::new(exe)
        .arg("child-c07f")
        .arg(case.encode())
        .stdin(std::process::Stdio::null())
        .stdout(std::process::Stdio::piped())
        .stderr(std::process::Stdio::null())
        .spawn()
        .expect("spawn c07f child");
    let start = std::time::Instant::now();
    loop {
        match child.try_wait() {
            Ok(Some(st)) => {
                use std::os::unix::process::ExitStatusExt;
                let mut out = String::new();
                if let Some(mut o) = child.stdout.take() {
                    let _ = o.read_to_string(&mut out);
                }
                return match (st.code(), st.signal()) {
                    (Some(0), _) => "ok".into(),
                    (Some(2), _) => simcore::harness_error("c07f: child reported a harness error"),
                    (Some(4), _) => format!("wrong-bytes: {}", out.lines().find(|l| l.starts_with("WRONG")).unwrap_or("").trim_start_matches("WRONG ")),
                    (Some(101), _) => "panic".into(),
                    (Some(c), _) => format!("exit{c}"),
                    (None, Some(s)) => format!("signal{s}"),
                    _ => "unknown".into(),
                };
            }
            Ok(None) => {
                if start.elapsed().as_millis() as u64 > watchdog_ms {
                    let _ = child.kill();
                    let _ = child.wait();
                    return "stalled (no progress for the whole watchdog period; killed)".into();
                }
                std::thread::sleep(std::time::Duration::from_millis(2));
            }
            Err(_) => return "wait-error".into(),
        }
    }
}

pub fn parent_main(args: &Args) -> ! {
    let id = "C07";
    let cs = cases(args.seed, args.tier);
    let start = std::time::Instant::now();
    let results: Vec<(Case, String)> = std::thread::scope(|s| {
        let hs: Vec<_> = cs
            .chunks(cs.len().div_ceil(6).max(1))
            .map(|chunk| s.spawn(move || chunk.iter().map(|c| (c.clone(), run_child(c, 30_000))).collect::<Vec<_>>()))
            .collect();
        hs.into_iter().flat_map(|h| h.join().unwrap()).collect()
    });
    let mut bad = vec![];
    let mut by_mode: std::collections::BTreeMap<String, u64> = Default::default();
    for (c, r) in &results {
        *by_mode.entry(format!("{}:{}", c.mode, if r == "ok" { "ok" } else { "bad" })).or_insert(0) += 1;
        if r != "ok" {
            bad.push((c.clone(), r.clone()));
        }
    }
    for (c, r) in bad.iter().take(4) {
        let path = report::write_replay(
            id,
            args.seed,
            &format!("realthreads-{}-{}-{}", c.comp.name(), c.pool, c.mode),
            json!({"property": id, "seed": args.seed, "tier": args.tier.name(), "engine_cmd": "c07f", "case": c.encode(),
                   "what": format!("{} readers mode, rayon global pool of {} threads, {} compressed clusters ({})", c.mode, c.pool, c.n, c.comp.name()),
                   "class": r}),
        );
        println!("VIOLATION property={id} replay={}", path.display());
        eprintln!("  C07|real-threads|{}|pool={}|{}", c.mode, c.pool, r);
    }
    if let Ok(path) = std::env::var("VERIF_PASS_SUMMARY") {
        let _ = std::fs::write(
            &path,
            json!({"cases": results.len(), "outcomes": by_mode, "violations": bad.len(), "seed": args.seed, "tier": args.tier.name(),
                   "wall_s": start.elapsed().as_secs_f64(),
                   "what": "real OS threads (no scheduler control): (frontier) 12 threads read 6000 small ranges each, in ascending order, of one 20-24 MiB compressed cluster while it is being decoded; (pool) the readers are the workers of rayon's global pool of 1/2/4 threads and ask for 12+ undecoded compressed clusters at once; (threads) 4..8 std threads read every content in seeded orders; oracle: exact bytes via stream and tail slice, no panic / signal, termination (30 s watchdog for millisecond cases)",
                   "decides": "that decompression jobs do not depend on the caller's own thread pool to make progress (invisible to the T flavour, where the decompression pool is a stub), and a real-memory-model cross-check of the bytes"})
            .to_string(),
        );
    }
    println!("{id} real-threads pass: {} cases, {} violations, {:.1}s", results.len(), bad.len(), start.elapsed().as_secs_f64());
    std::process::exit(if bad.is_empty() { 0 } else { 1 })
}

pub fn replay_main(_args: &Args, file: &str) -> ! {
    let v: Value = serde_json::from_str(&std::fs::read_to_string(file).unwrap_or_else(|e| simcore::harness_error(&format!("cannot read replay file: {e}"))))
        .unwrap_or_else(|e| simcore::harness_error(&format!("replay file does not parse: {e}")));
    let case = Case::decode(v["case"].as_str().unwrap_or("")).unwrap_or_else(|| simcore::harness_error("replay: bad case"));
    // real threads: a stall of this kind is deterministic, wrong bytes may need several runs
    for round in 0..20 {
        let r = run_child(&case, 30_000);
        if r != "ok" {
            println!("VIOLATION property=C07 replay={file}");
            println!("  class: {r} (round {round}; recorded: {})", v["class"]);
            std::process::exit(1)
        }
    }
    println!("no violation on replay (20 rounds)");
    std::process::exit(0)
}
