//! C04, manifests above 1 MiB: a manifest that lists several thousand packs, written by jubako's
//! own manifest creator (the listed packs are made up: only the manifest's own check is asked).
//! The manifest's global check streams the file and blanks bytes 38..256 of every pack
//! description; whatever the size of the manifest and wherever the pieces in which that stream
//! reads happen to end, the blanked bytes must be exactly those. Alterations here are crafted:
//! one checked byte (0..38) of a pack description is altered and the description's own CRC-32C
//! (which lies in the blanked part) is recomputed, so that only the global check can notice.
//! Seven consecutive pack counts shift the table by 7 x 37 bytes, so that every alignment of the
//! table against any power-of-two boundary occurs within 7 bytes.

use jubako as jbk;
use jubako::creator;
use jubako::Pack;
use serde_json::{json, Value};
use simcore::fault::Fault;
use simcore::layout::PackSpan;
use simcore::prng::Rng;
use simcore::Tier;
use std::path::Path;

pub fn counts(tier: Tier, seed: u64) -> Vec<u32> {
    let base = 4090 + (seed % 5) as u32 * 7;
    match tier {
        Tier::Quick => (0..7).map(|k| base + k).collect(),
        Tier::Thorough => (0..7).map(|k| base + k).chain((0..7).map(|k| 8200 + (seed % 3) as u32 + k)).collect(),
    }
}

fn utf8(p: &Path) -> &jbk::Utf8Path {
    jbk::Utf8Path::from_path(p).expect("utf8 path")
}

/// The bytes of a manifest that lists one directory pack and `n` content packs.
pub fn build(n: u32, seed: u64, scratch: &Path) -> Vec<u8> {
    std::fs::create_dir_all(scratch).unwrap();
    let vendor = jbk::VendorId::from(simcore::gen::VENDOR);
    // one real (tiny) content pack: its PackData is the template of every listed pack
    let tpl_path = scratch.join("tpl.jbkc");
    let mut cpc = creator::ContentPackCreator::new(utf8(&tpl_path), jbk::PackId::from(1), vendor, Default::default(), creator::Compression::None)
        .unwrap_or_else(|e| simcore::harness_error(&format!("big manifest: template pack: {e}")));
    cpc.add_content(Box::new(std::io::Cursor::new(b"template".to_vec())), creator::CompHint::No)
        .unwrap_or_else(|e| simcore::harness_error(&format!("big manifest: template pack: {e}")));
    let (_f, tpl) = cpc.finalize().unwrap_or_else(|e| simcore::harness_error(&format!("big manifest: template pack: {e}")));
    let mut rng = Rng::derive(seed, "big-manifest", n as u64);
    let mut mpc = creator::ManifestPackCreator::new(vendor, Default::default());
    // the directory pack is made up too (kind taken from a directory pack creator is not needed:
    // the manifest's own check never opens it); ManifestPack::new wants one pack of id 0
    let dir_path = scratch.join("tpl.jbkd");
    let dpc = creator::DirectoryPackCreator::new(jbk::PackId::from(0), vendor, Default::default());
    let mut dfile = std::fs::OpenOptions::new().read(true).write(true).create(true).truncate(true).open(&dir_path).unwrap();
    let fin = dpc.finalize().unwrap_or_else(|e| simcore::harness_error(&format!("big manifest: template directory: {e}")));
    let dir_data = fin.write(&mut dfile).unwrap_or_else(|e| simcore::harness_error(&format!("big manifest: template directory: {e}")));
    mpc.add_pack(dir_data, "d.jbkd".to_string());
    for k in 1..=n {
        let mut u = [0u8; 16];
        u.copy_from_slice(&rng.bytes(16));
        let data = creator::PackData {
            uuid: uuid::Uuid::from_bytes(u),
            pack_size: tpl.pack_size,
            pack_kind: tpl.pack_kind,
            pack_id: jbk::PackId::from(k as u16),
            free_data: vec![],
            check_info: tpl.check_info,
        };
        mpc.add_pack(data, format!("p{k}.jbkc"));
    }
    let man_path = scratch.join(format!("big{n}.jbkm"));
    let mut mf = std::fs::OpenOptions::new().read(true).write(true).create(true).truncate(true).open(&man_path).unwrap();
    mpc.finalize(&mut mf).unwrap_or_else(|e| simcore::harness_error(&format!("big manifest: finalize: {e}")));
    drop(mf);
    std::fs::read(&man_path).unwrap()
}

pub fn span_of(bytes: &[u8]) -> PackSpan {
    simcore::layout::scan_file(bytes)
        .into_iter()
        .next()
        .filter(|s| s.kind == b'm')
        .unwrap_or_else(|| simcore::harness_error("big manifest: the layout scanner finds no manifest"))
}

/// Crafted alterations: for the pack descriptions that straddle (or touch) a multiple of
/// 4 KiB (thorough) / 64 KiB (quick), and a seeded sample of the others, every checked byte.
pub fn faults(bytes: &[u8], tier: Tier, seed: u64) -> Vec<Fault> {
    let span = span_of(bytes);
    let grain: u64 = match tier {
        Tier::Quick => 65536,
        Tier::Thorough => 4096,
    };
    let mut rng = Rng::derive(seed, "big-manifest-faults", bytes.len() as u64);
    let mut out = vec![];
    for (k, slot) in span.info_slots.iter().enumerate() {
        let lo = span.start + slot;
        // a boundary inside [lo - 38, lo + 38): the description's checked bytes lie right at it
        let near = (lo + 37) / grain != lo.saturating_sub(38) / grain;
        let sampled = rng.chance(1, match tier { Tier::Quick => 400, Tier::Thorough => 40 });
        if !(near || sampled || k == 0 || k + 1 == span.info_slots.len()) {
            continue;
        }
        // harness self-check: the stored CRC of the description is what our CRC computes
        let stored = u32::from_be_bytes(bytes[(lo + 252) as usize..(lo + 256) as usize].try_into().unwrap());
        if simcore::fault::crc32c_jubako(&bytes[lo as usize..(lo + 252) as usize]) != stored {
            simcore::harness_error("big manifest: the harness's CRC-32C does not reproduce a stored pack-description CRC");
        }
        for pos in lo..lo + 38 {
            out.push(Fault::FlipFix { file: 0, pos, mask: if pos % 2 == 0 { 0x01 } else { 0xFF }, block_start: lo, block_len: 252 });
        }
    }
    out
}

/// What the manifest's own check says about `bytes`.
pub fn verdict(bytes: Vec<u8>) -> String {
    let reader: jbk::Reader = bytes.into();
    match jbk::reader::ManifestPack::new(reader) {
        Err(e) => format!("Err({})", simcore::dump::err_class(&e)),
        Ok(m) => match m.check() {
            Ok(b) => b.to_string(),
            Err(e) => format!("Err({})", simcore::dump::err_class(&e)),
        },
    }
}

pub struct PassResult {
    pub cases: u64,
    pub fired: u64,
    /// (image name, fault, detail)
    pub violations: Vec<(String, String, Value)>,
    pub images: Vec<Value>,
}

/// Run the whole pass on `workers` threads (pure in-memory evaluations).
pub fn pass(tier: Tier, seed: u64, scratch: &Path, workers: usize) -> PassResult {
    let mut res = PassResult { cases: 0, fired: 0, violations: vec![], images: vec![] };
    for n in counts(tier, seed) {
        let bytes = std::sync::Arc::new(build(n, seed, &scratch.join(format!("bm{n}"))));
        let name = format!("big-manifest-n{n}");
        let pristine = verdict(bytes.as_ref().clone());
        // the file form, through tools::open_pack, once per image
        let file_path = scratch.join(format!("bm{n}")).join(format!("big{n}.jbkm"));
        let via_file = match jbk::tools::open_pack(&file_path).and_then(|p| p.check()) {
            Ok(b) => b.to_string(),
            Err(e) => format!("Err({})", simcore::dump::err_class(&e)),
        };
        if pristine != "true" || via_file != "true" {
            res.violations.push((name.clone(), "none".into(), json!({"pristine_check": pristine, "pristine_check_via_open_pack": via_file})));
            continue;
        }
        let faults = std::sync::Arc::new(faults(&bytes, tier, seed));
        res.images.push(json!({"image": name, "bytes": bytes.len(), "listed_packs": n + 1, "crafted_cases": faults.len()}));
        let next = std::sync::Arc::new(std::sync::atomic::AtomicUsize::new(0));
        let bad: std::sync::Arc<std::sync::Mutex<Vec<(usize, String)>>> = Default::default();
        let handles: Vec<_> = (0..workers.max(1))
            .map(|_| {
                let (bytes, faults, next, bad) = (bytes.clone(), faults.clone(), next.clone(), bad.clone());
                std::thread::spawn(move || loop {
                    let i = next.fetch_add(1, std::sync::atomic::Ordering::Relaxed);
                    if i >= faults.len() {
                        break;
                    }
                    let mut files = vec![bytes.as_ref().clone()];
                    faults[i].apply(&mut files);
                    let v = verdict(files.pop().unwrap());
                    if v == "true" {
                        bad.lock().unwrap().push((i, v));
                    }
                })
            })
            .collect();
        for h in handles {
            if h.join().is_err() {
                simcore::harness_error("big manifest: an evaluation thread panicked");
            }
        }
        res.cases += faults.len() as u64;
        res.fired += faults.len() as u64;
        let mut bad = bad.lock().unwrap().clone();
        bad.sort();
        for (i, v) in bad {
            let span = span_of(&bytes);
            let (pos, slot) = match &faults[i] {
                Fault::FlipFix { pos, block_start, .. } => (*pos, *block_start),
                _ => (0, 0),
            };
            res.violations.push((
                name.clone(),
                faults[i].encode(),
                json!({"check": v, "listed_packs": n + 1, "manifest_bytes": bytes.len(), "altered_byte": pos, "byte_within_pack_description": pos - slot,
                       "pack_description_index": span.info_slots.iter().position(|s| span.start + s == slot), "pack_description_at": slot}),
            ));
        }
        let _ = std::fs::remove_dir_all(scratch.join(format!("bm{n}")));
    }
    res
}

/// Replay of one recorded case: Some(verdict) when the check still says "true".
pub fn replay(image: &str, fault: &str, seed: u64, scratch: &Path) -> Option<String> {
    let n: u32 = image.trim_start_matches("big-manifest-n").parse().unwrap_or_else(|_| simcore::harness_error("replay: bad big-manifest image name"));
    let bytes = build(n, seed, &scratch.join("bm"));
    if fault == "none" {
        let v = verdict(bytes);
        return if v == "true" { None } else { Some(v) };
    }
    let f = Fault::decode(fault).unwrap_or_else(|| simcore::harness_error("replay: fault does not parse"));
    let mut files = vec![bytes];
    f.apply(&mut files);
    let v = verdict(files.pop().unwrap());
    if v == "true" {
        Some(v)
    } else {
        println!("replay {image} {fault}: check answers {v}");
        None
    }
}
