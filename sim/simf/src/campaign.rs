//! Stored-byte fault campaign shared by C04 (integrity check), C05 (structural answers) and
//! C06 (no crash / no hang): images x faults, each case observed in a child process.

use crate::hooks::FHooks;
use crate::Args;
use serde_json::{json, Value};
use simcore::dump::{self, Dump, DumpSpec, Leaf};
use simcore::fault::Fault;
use simcore::layout::{self, PackSpan};
use simcore::proc::{self, CaseOutcome};
use simcore::prng::Rng;
use simcore::report::{self, Evidence};
use simcore::{gen, images, Tier};
use std::collections::BTreeMap;
use std::path::{Path, PathBuf};
use std::time::Duration;

#[derive(Clone, Copy, Debug, PartialEq, Eq)]
pub enum Mode {
    C04,
    C05,
    C06,
}

impl Mode {
    pub fn id(self) -> &'static str {
        match self {
            Mode::C04 => "C04",
            Mode::C05 => "C05",
            Mode::C06 => "C06",
        }
    }
    fn parse(s: &str) -> Mode {
        match s {
            "C04" => Mode::C04,
            "C05" => Mode::C05,
            "C06" => Mode::C06,
            _ => simcore::harness_error("bad mode"),
        }
    }
}

/// Everything a child needs to know about one image.
struct ImageInfo {
    name: String,
    desc: String,
    /// file names (relative), entry first
    files: Vec<String>,
    bytes: Vec<Vec<u8>>,
    spans: Vec<Vec<PackSpan>>,
    spec: DumpSpec,
    pristine: Dump,
}

fn spec_to_json(s: &DumpSpec) -> Value {
    json!({
        "index_names": s.index_names,
        "index_count": s.index_count,
        "prop_names": s.prop_names,
        "max_pack_id": s.max_pack_id,
        "beyond": s.beyond,
        "read_bytes": s.read_bytes,
        "cap": s.cap,
    })
}

fn spec_from_json(v: &Value) -> DumpSpec {
    const PROPS: [&str; 6] = ["key", "addr", "len", "sig", "x", "tag"];
    DumpSpec {
        index_names: v["index_names"]
            .as_array()
            .unwrap()
            .iter()
            .map(|s| s.as_str().unwrap().to_string())
            .collect(),
        prop_names: v["prop_names"]
            .as_array()
            .unwrap()
            .iter()
            .map(|s| *PROPS.iter().find(|p| **p == s.as_str().unwrap()).unwrap())
            .collect(),
        max_pack_id: v["max_pack_id"].as_u64().unwrap() as u16,
        beyond: v["beyond"].as_u64().unwrap() as u32,
        read_bytes: v["read_bytes"].as_bool().unwrap(),
        cap: v["cap"].as_u64().unwrap() as u32,
        index_count: v["index_count"].as_u64().unwrap_or(0) as usize,
    }
}

fn build_images(hooks: &FHooks, args: &Args, scratch: &simcore::Scratch) -> Vec<ImageInfo> {
    let mut out = Vec::new();
    let only = std::env::var("VERIF_ONLY_IMAGE").ok();
    for (name, logical) in images::grid(args.seed, args.tier) {
        if let Some(o) = &only {
            if !name.contains(o.as_str()) {
                continue;
            }
        }
        let unreadable_store = name == images::UNREADABLE_STORE_IMAGE;
        if unreadable_store && !args.cmd.eq_ignore_ascii_case("c05") {
            continue;
        }
        let dir = scratch.sub(&format!("img-{name}"));
        let (built, pristine) = match crate::build_image(hooks, args.seed, &name, &logical, &dir) {
            Ok(x) => x,
            Err(e) => simcore::harness_error(&format!("image {name} does not build: {e}")),
        };
        let mism = dump::check_against_model(
            &pristine,
            &built.model,
            crate::contents_readable(logical.packaging),
        );
        // (the one image that is known not to read back on the pinned tree: its entries may answer
        // with an error - never with another value)
        let mism: Vec<String> = if unreadable_store {
            mism.into_iter().filter(|m| !(m.starts_with("index[") && (m.ends_with(" got nothing") || m.contains(" got Err(")))).collect()
        } else {
            mism
        };
        if !mism.is_empty() {
            // fault-free configuration: what the creator wrote does not read back as the model says
            // (or does not verify). The campaign cannot continue on this image; reported as a
            // violation of the check's property in its fault-free part.
            println!(
                "{}",
                json!({"t":"faultfree","image":name,"desc":gen::describe(&logical),"mismatch":mism.iter().take(3).collect::<Vec<_>>()})
            );
            let _ = std::fs::remove_dir_all(&dir);
            continue;
        }
        let files: Vec<String> = built
            .files
            .iter()
            .map(|f| f.file_name().unwrap().to_str().unwrap().to_string())
            .collect();
        let bytes: Vec<Vec<u8>> = built
            .files
            .iter()
            .map(|f| std::fs::read(f).expect("read image file"))
            .collect();
        let spans = bytes.iter().map(|b| layout::scan_file(b)).collect();
        out.push(ImageInfo {
            name,
            desc: gen::describe(&logical),
            files,
            bytes,
            spans,
            spec: DumpSpec::for_model(&built.model),
            pristine,
        });
        let _ = std::fs::remove_dir_all(&dir);
    }
    out
}

// ------------------------------------------------------------------------------------------
// fault lists

struct Budget {
    /// images whose total size is at most this get exhaustive position coverage
    exhaustive_upto: usize,
    masks: &'static [u8],
    sampled_positions: usize,
    ranges: usize,
    two_site: usize,
    trunc_stride_large: usize,
}

fn budget(mode: Mode, tier: Tier) -> Budget {
    match (mode, tier) {
        (Mode::C04, Tier::Quick) => Budget {
            exhaustive_upto: 4500,
            masks: &[0x01, 0x80, 0xFF],
            sampled_positions: 1500,
            ranges: 120,
            two_site: 0,
            trunc_stride_large: 0,
        },
        (Mode::C04, Tier::Thorough) => Budget {
            exhaustive_upto: 40_000,
            masks: &[0x01, 0x02, 0x10, 0x80, 0xFF],
            sampled_positions: 6000,
            ranges: 600,
            two_site: 0,
            trunc_stride_large: 0,
        },
        (Mode::C05, Tier::Quick) => Budget {
            exhaustive_upto: 2300,
            masks: &[0x01, 0xFF],
            sampled_positions: 700,
            ranges: 60,
            two_site: 20,
            trunc_stride_large: 0,
        },
        (Mode::C05, Tier::Thorough) => Budget {
            exhaustive_upto: 12_000,
            masks: &[0x01, 0x80, 0xFF],
            sampled_positions: 5000,
            ranges: 400,
            two_site: 150,
            trunc_stride_large: 0,
        },
        (Mode::C06, Tier::Quick) => Budget {
            exhaustive_upto: 2300,
            masks: &[0xFF],
            sampled_positions: 400,
            ranges: 40,
            two_site: 0,
            trunc_stride_large: 37,
        },
        (Mode::C06, Tier::Thorough) => Budget {
            exhaustive_upto: 12_000,
            masks: &[0x01, 0x80, 0xFF],
            sampled_positions: 4000,
            ranges: 300,
            two_site: 0,
            trunc_stride_large: 5,
        },
    }
}

fn faults_for(mode: Mode, tier: Tier, seed: u64, img: &ImageInfo) -> Vec<Fault> {
    let b = budget(mode, tier);
    let total: usize = img.bytes.iter().map(|f| f.len()).sum();
    let small = total <= b.exhaustive_upto;
    // images of several megabytes: every case copies, hashes and walks the whole image, so the
    // sampled budget is cut down (the interesting property of such an image is its size class)
    let huge = total > (4 << 20);
    let b = if huge {
        Budget {
            sampled_positions: b.sampled_positions / 25,
            ranges: b.ranges / 10,
            two_site: b.two_site / 10,
            trunc_stride_large: if b.trunc_stride_large > 0 { 400_000 } else { 0 },
            masks: &b.masks[..1],
            ..b
        }
    } else {
        b
    };
    let mut rng = Rng::derive(seed, "faults", simcore::prng::hash_label(0, &img.name, mode as u64));
    let mut out = Vec::new();
    if img.name == images::UNREADABLE_STORE_IMAGE {
        // every case walks 22 000 entries: single-bit flips in the directory pack only, most of
        // them in its last third (where the value store and its offset table lie)
        for (fi, spans) in img.spans.iter().enumerate() {
            for span in spans.iter().filter(|s| s.kind == b'd') {
                for k in 0..600u64 {
                    let lo = if k % 4 == 0 { span.start } else { span.start + span.size * 2 / 3 };
                    out.push(Fault::Flip {
                        file: fi,
                        pos: rng.range(lo, span.start + span.size - 1),
                        mask: 1 << rng.below(8),
                    });
                }
            }
        }
        return out;
    }
    for (fi, file) in img.bytes.iter().enumerate() {
        if img.name.contains("loose-beside") && fi != 0 {
            // the loose files next to the container are not what the reader uses (packs are looked
            // for inside the file at hand first): damage goes into the container
            continue;
        }
        let len = file.len() as u64;
        // positions of interest
        let mut positions: Vec<u64> = Vec::new();
        match mode {
            Mode::C04 => {
                for span in &img.spans[fi] {
                    if span.kind == b'C' {
                        continue;
                    }
                    let lo = span.start;
                    let hi = span.start + span.checked_end();
                    if small {
                        positions.extend(lo..hi);
                    } else {
                        // header, area around the check block, and a seeded sample
                        positions.extend(lo..(lo + 128).min(hi));
                        positions.extend(hi.saturating_sub(64).max(lo)..hi);
                        for _ in 0..b.sampled_positions {
                            positions.push(rng.range(lo, hi - 1));
                        }
                    }
                }
            }
            Mode::C05 | Mode::C06 => {
                if small {
                    positions.extend(0..len);
                } else {
                    positions.extend(0..128.min(len));
                    positions.extend(len.saturating_sub(128)..len);
                    for span in &img.spans[fi] {
                        let s = span.start;
                        positions.extend(s..(s + 128).min(len));
                        let e = span.start + span.size;
                        positions.extend(e.saturating_sub(110)..e.min(len));
                    }
                    for _ in 0..b.sampled_positions {
                        positions.push(rng.below(len));
                    }
                }
            }
        }
        positions.sort();
        positions.dedup();
        for &pos in &positions {
            for &mask in b.masks {
                out.push(Fault::Flip {
                    file: fi,
                    pos,
                    mask,
                });
            }
        }
        // (C05 / C06, small images) every single bit of the stored bytes of compressed clusters:
        // a compressed stream has no checksum of its own, and exactly one bit may turn it into a
        // valid stream of another length
        if small && mode != Mode::C04 && !img.name.contains("-none") {
            for span in &img.spans[fi] {
                if span.kind != b'c' {
                    continue;
                }
                for pos in span.start + 128..span.start + span.check_info_pos {
                    for bit in 0..8u8 {
                        let mask = 1u8 << bit;
                        if !b.masks.contains(&mask) {
                            out.push(Fault::Flip { file: fi, pos, mask });
                        }
                    }
                }
            }
        }
        // every single bit of every pack's header blocks and tail (the masks above are a few bytes
        // wide or narrow, and a header field may have exactly one "interesting" neighbour value:
        // 'c' and 'C' differ by bit 5), and the kind byte replaced by each other valid pack kind
        for span in &img.spans[fi] {
            // the 64-byte pack header block (magic, kind, versions, sizes): all eight bits
            // (C05 / C06: the first 16 bytes - magic, kind, versions, flags; the rest of the block is
            // uuid and sizes, which the three standard masks already cover)
            let width = if mode == Mode::C04 { 64 } else { 16 };
            let hot: Vec<u64> = (span.start..(span.start + width).min(len)).collect();
            if mode == Mode::C04 && span.kind == b'C' {
                // C04 judges the checked range of manifest / directory / content packs only
                continue;
            }
            for pos in hot {
                for bit in 0..8u8 {
                    let mask = 1u8 << bit;
                    if !b.masks.contains(&mask) {
                        out.push(Fault::Flip { file: fi, pos, mask });
                    }
                }
            }
            let kpos = span.start + 3;
            if (kpos as usize) < file.len() {
                for other in [b'm', b'd', b'c', b'C'] {
                    let mask = file[kpos as usize] ^ other;
                    if mask != 0 && mask.count_ones() > 1 {
                        out.push(Fault::Flip { file: fi, pos: kpos, mask });
                    }
                }
            }
        }
        // multi-byte damage
        for _ in 0..b.ranges {
            if len == 0 {
                break;
            }
            let (lo, hi) = match mode {
                Mode::C04 => {
                    let spans: Vec<&PackSpan> =
                        img.spans[fi].iter().filter(|s| s.kind != b'C').collect();
                    if spans.is_empty() {
                        break;
                    }
                    let s = *rng.pick(&spans);
                    (s.start, s.start + s.checked_end())
                }
                _ => (0, len),
            };
            let max_len = match mode {
                Mode::C04 => 64,
                _ => 512,
            };
            let rl = rng.range(2, max_len).min(hi - lo);
            let pos = rng.range(lo, hi - rl);
            if rng.chance(1, 2) {
                out.push(Fault::Zero {
                    file: fi,
                    pos,
                    len: rl,
                });
            } else {
                out.push(Fault::Overwrite {
                    file: fi,
                    pos,
                    len: rl,
                    seed: rng.next_u64(),
                });
            }
        }
        // crafted damage (C04; C06 since round 11): a byte of a pack's two header blocks altered and
        // the block's CRC-32C recomputed, so that only the pack's global hash can notice. For C06
        // this is the damage that gets past the block CRCs into the parsing arithmetic: blocks
        // that are valid one by one and do not belong together (sizes, counts and positions that
        // contradict each other) - what a misdirected write of a whole sector also produces
        if mode == Mode::C04 || mode == Mode::C06 {
            for span in &img.spans[fi] {
                if span.kind == b'C' {
                    continue;
                }
                for block in [span.start, span.start + 64] {
                    // harness self-check: the stored CRC must be what our own CRC computes
                    let stored = u32::from_be_bytes(file[(block + 60) as usize..(block + 64) as usize].try_into().unwrap());
                    if simcore::fault::crc32c_jubako(&file[block as usize..(block + 60) as usize]) != stored {
                        simcore::harness_error("the harness's CRC-32C does not reproduce a stored header CRC");
                    }
                    for pos in block..block + 60 {
                        for mask in [0x01u8, 0xFF] {
                            out.push(Fault::FlipFix {
                                file: fi,
                                pos,
                                mask,
                                block_start: block,
                                block_len: 60,
                            });
                        }
                    }
                }
            }
        }
        // crafted damage (C04 only), continued: the pack's check block (kind byte + 32 hash bytes
        // + CRC) altered with its CRC recomputed. The kind byte only to values that name no check
        // at all (2, 3, 0x81, 0xFE): a block rewritten into another *valid* statement ("this pack
        // has no check", or the hash of the altered bytes) is a forgery no unkeyed check can
        // notice, and is not asked. And the checked bytes (0..38) of the manifest's pack
        // descriptions, whose CRC lies in the part the global check blanks.
        if mode == Mode::C04 || mode == Mode::C06 {
            for span in &img.spans[fi] {
                if span.kind == b'C' {
                    continue;
                }
                if span.check_block_size() == 37 {
                    let cb = span.start + span.check_info_pos;
                    let stored = u32::from_be_bytes(file[(cb + 33) as usize..(cb + 37) as usize].try_into().unwrap());
                    if simcore::fault::crc32c_jubako(&file[cb as usize..(cb + 33) as usize]) != stored {
                        simcore::harness_error("the harness's CRC-32C does not reproduce a stored check-block CRC");
                    }
                    if file[cb as usize] == 1 {
                        for mask in [0x02u8, 0x03, 0x80, 0xFF] {
                            out.push(Fault::FlipFix { file: fi, pos: cb, mask, block_start: cb, block_len: 33 });
                        }
                    }
                    for pos in cb + 1..cb + 33 {
                        out.push(Fault::FlipFix { file: fi, pos, mask: if pos % 2 == 0 { 0x01 } else { 0xFF }, block_start: cb, block_len: 33 });
                    }
                }
                let n_slots = span.info_slots.len();
                for (k, slot) in span.info_slots.iter().enumerate() {
                    if n_slots > 8 && !(k < 2 || k + 2 >= n_slots || rng.chance(8, n_slots as u64)) {
                        continue;
                    }
                    let lo = span.start + slot;
                    for pos in lo..lo + 38 {
                        out.push(Fault::FlipFix { file: fi, pos, mask: if pos % 2 == 0 { 0x01 } else { 0xFF }, block_start: lo, block_len: 252 });
                    }
                }
            }
        }
        // crafted damage, continued (C04 and C06): the two tables of a content pack - content
        // infos (cluster number and blob number of every content, 4 bytes each) and cluster
        // pointers (size and position of every cluster tail, 8 bytes each) - altered with the
        // table's CRC recomputed: tables that are valid blocks and contradict the pack they are in
        // (a content in a cluster the pack does not have, a tail outside the pack). The pack's
        // global hash still sees it (C04); reading must answer with values or errors (C06)
        if mode == Mode::C04 || mode == Mode::C06 {
            for span in &img.spans[fi] {
                if (span.kind != b'c' && span.kind != b'd') || span.size < 192 {
                    continue;
                }
                let h = (span.start + 64) as usize;
                let rd64 = |at: usize| u64::from_le_bytes(file[at..at + 8].try_into().unwrap());
                let rd32 = |at: usize| u32::from_le_bytes(file[at..at + 4].try_into().unwrap()) as u64;
                // (a directory pack has three such tables: where its indexes, entry stores and
                // value stores are and how large their tail blocks are, 8 bytes each)
                let tables = if span.kind == b'c' {
                    vec![(rd64(h), rd32(h + 16), 4u64), (rd64(h + 8), rd32(h + 20), 8u64)]
                } else {
                    vec![(rd64(h), rd32(h + 24), 8u64), (rd64(h + 8), rd32(h + 28), 8u64), (rd64(h + 16), file[h + 32] as u64, 8u64)]
                };
                // ... and the tail blocks of a content pack's clusters (blob count, sizes and the
                // blob offsets), found through the cluster-pointer table (size in the low 16 bits,
                // position above them): the first six and the last two clusters
                let mut tables = tables;
                if span.kind == b'c' {
                    let (ptr_pos, n_clusters) = (rd64(h + 8), rd32(h + 20));
                    for k in (0..n_clusters).filter(|k| *k < 6 || *k + 2 >= n_clusters) {
                        let at = (span.start + ptr_pos + 8 * k) as usize;
                        if at + 8 > file.len() {
                            break;
                        }
                        let data = rd64(at);
                        let (tail_size, tail_pos) = (data & 0xFFFF, data >> 16);
                        if tail_size > 0 {
                            tables.push((tail_pos, tail_size, 1));
                        }
                    }
                }
                for (pos, count, elem) in tables {
                    let (lo, len) = (span.start + pos, count * elem);
                    if count == 0 || pos + len + 4 > span.size {
                        continue;
                    }
                    let stored = u32::from_be_bytes(file[(lo + len) as usize..(lo + len + 4) as usize].try_into().unwrap());
                    if simcore::fault::crc32c_jubako(&file[lo as usize..(lo + len) as usize]) != stored {
                        simcore::harness_error("the harness's idea of a content / directory pack's tables does not reproduce their stored CRC");
                    }
                    for at in 0..len {
                        // every byte of small tables; the first and last 48 bytes and a seeded
                        // sample of larger ones
                        if len > 128 && at >= 48 && at + 48 < len && !rng.chance(64, len) {
                            continue;
                        }
                        for mask in [0x01u8, 0x10, 0xFF] {
                            out.push(Fault::FlipFix { file: fi, pos: lo + at, mask, block_start: lo, block_len: len });
                        }
                    }
                }
            }
        }
        // paired damage: a byte of the checked range together with the kind byte of the pack's
        // check block (blake3 -> "no check"): the check block's own CRC must catch the second one
        if mode != Mode::C06 {
            for span in &img.spans[fi] {
                if span.kind == b'C' {
                    continue;
                }
                let lo = span.start + 128;
                let hi = span.start + span.check_info_pos;
                if hi <= lo {
                    continue;
                }
                let kind_byte = span.start + span.check_info_pos;
                let n = if small { 48 } else { 16 };
                for _ in 0..n {
                    out.push(Fault::Multi(vec![
                        Fault::Flip {
                            file: fi,
                            pos: rng.range(lo, hi - 1),
                            mask: *rng.pick(&[0x01u8, 0x20, 0xFF]),
                        },
                        Fault::Flip {
                            file: fi,
                            pos: kind_byte,
                            mask: 0x01,
                        },
                    ]));
                }
            }
        }
        // whole-sector damage (lost or torn 512-byte sector): zeroed and garbage, every sector of
        // a small file, a seeded sample of a large one
        if mode != Mode::C04 {
            let sectors: Vec<u64> = if small {
                (0..len.div_ceil(512)).collect()
            } else {
                (0..24).map(|_| rng.below(len.div_ceil(512).max(1))).collect()
            };
            // misdirected writes: a sector's bytes landing on another sector of the same file
            let n_sectors = len.div_ceil(512).max(1);
            for _ in 0..(if small { 12 } else { 6 }) {
                if n_sectors < 2 {
                    break;
                }
                let a = rng.below(n_sectors);
                let mut b = rng.below(n_sectors);
                if a == b {
                    b = (b + 1) % n_sectors;
                }
                out.push(Fault::CopyRange {
                    file: fi,
                    src: a * 512,
                    dst: b * 512,
                    len: 512,
                });
            }
            for sct in sectors {
                out.push(Fault::Zero {
                    file: fi,
                    pos: sct * 512,
                    len: 512,
                });
                out.push(Fault::Overwrite {
                    file: fi,
                    pos: sct * 512,
                    len: 512,
                    seed: rng.next_u64(),
                });
            }
        }
        for _ in 0..b.two_site {
            if len < 2 {
                break;
            }
            let a = Fault::Flip {
                file: fi,
                pos: rng.below(len),
                mask: *rng.pick(&[0x01u8, 0x40, 0xFF]),
            };
            let fj = rng.usize_below(img.bytes.len());
            let lj = img.bytes[fj].len() as u64;
            if lj == 0 {
                continue;
            }
            let bb = Fault::Flip {
                file: fj,
                pos: rng.below(lj),
                mask: *rng.pick(&[0x01u8, 0x40, 0xFF]),
            };
            out.push(Fault::Multi(vec![a, bb]));
        }
        // (C05 / C06) a whole embedded pack overwritten by the bytes of a sibling pack of the same
        // kind that is not larger (a misdirected write of pack size): what the container stores
        // under one uuid is now another valid pack
        if mode != Mode::C04 {
            let inner: Vec<&PackSpan> = img.spans[fi].iter().skip(1).filter(|s| s.kind == b'c').collect();
            if img.spans[fi].first().map(|s| s.kind) == Some(b'C') {
                for a in &inner {
                    for b in &inner {
                        if a.start != b.start && b.size <= a.size {
                            out.push(Fault::CopyRange {
                                file: fi,
                                src: b.start,
                                dst: a.start,
                                len: b.size,
                            });
                        }
                    }
                }
            }
        }
        // (C05 / C06) two sites in one pack: a bit of the 64-byte header block (its CRC then fails)
        // together with a bit of the header's mirror image at the very end of the pack - whatever
        // falls back on the tail copy must verify that copy too
        if mode != Mode::C04 {
            for span in &img.spans[fi] {
                let tail_end = span.start + span.size + if span.kind == b'C' { 5 } else { 0 };
                if tail_end > len || span.size < 128 {
                    continue;
                }
                for i in (0..60u64).step_by(if small { 1 } else { 3 }) {
                    // header byte i is mirrored at tail_end - 1 - i
                    out.push(Fault::Multi(vec![
                        Fault::Flip { file: fi, pos: span.start + (i * 7 + 5) % 60, mask: 0x04 },
                        Fault::Flip { file: fi, pos: tail_end - 1 - i, mask: *rng.pick(&[0x01u8, 0x20, 0x80]) },
                    ]));
                }
            }
        }
        // (C04, C05) an altered content pack next to another content pack that is not there at all:
        // the container check covers the packs that are present, whichever of them is missing
        if mode != Mode::C06 && img.spans[fi].first().map(|s| s.kind) == Some(b'c') {
            let span = &img.spans[fi][0];
            let (lo, hi) = if mode == Mode::C04 {
                (span.start + 64, span.start + span.checked_end())
            } else {
                (span.start + 128, span.start + span.check_info_pos)
            };
            for fj in 0..img.bytes.len() {
                if fj == fi || img.spans[fj].first().map(|s| s.kind) != Some(b'c') {
                    continue;
                }
                for _ in 0..24 {
                    out.push(Fault::Multi(vec![
                        Fault::Flip {
                            file: fi,
                            pos: rng.range(lo, hi - 1),
                            mask: *rng.pick(&[0x01u8, 0x80, 0xFF]),
                        },
                        Fault::Remove { file: fj },
                    ]));
                }
            }
        }
        if mode == Mode::C06 {
            // truncation at every length (small) or strided + boundaries (large)
            if small {
                for l in 0..len {
                    out.push(Fault::Truncate { file: fi, len: l });
                }
            } else {
                let mut ls: Vec<u64> = (0..len).step_by(b.trunc_stride_large.max(1)).collect();
                for span in &img.spans[fi] {
                    for d in 0..70 {
                        ls.push((span.start + span.size).saturating_sub(d));
                        ls.push(span.start + d);
                    }
                }
                // every page boundary of the file, and the bytes around the end of each pack's
                // last checksummed table (its block CRC sits right before the check block)
                let pages = len / 4096;
                if pages <= 64 {
                    ls.extend((0..len).step_by(4096));
                } else {
                    // a huge file: a seeded sample of its page boundaries
                    for _ in 0..64 {
                        ls.push(rng.below(pages) * 4096);
                    }
                }
                for span in &img.spans[fi] {
                    let e = span.start + span.check_info_pos;
                    ls.extend(e.saturating_sub(12)..e + 4);
                }
                ls.retain(|l| *l < len);
                ls.sort();
                ls.dedup();
                for l in ls {
                    out.push(Fault::Truncate { file: fi, len: l });
                }
            }
            for n in [1u64, 2, 3, 63, 64, 65, 200] {
                out.push(Fault::Append {
                    file: fi,
                    len: n,
                    seed: rng.next_u64(),
                });
            }
            for n in [1u64, 64, 100] {
                out.push(Fault::Prepend {
                    file: fi,
                    len: n,
                    seed: rng.next_u64(),
                });
            }
            out.push(Fault::Empty { file: fi });
            for n in [1u64, 63, 64, 65, 128, 1000] {
                out.push(Fault::Garbage {
                    file: fi,
                    len: n,
                    seed: rng.next_u64(),
                });
            }
            for other in 0..img.bytes.len() {
                if other != fi {
                    out.push(Fault::SwapWith { file: fi, other });
                }
            }
        }
    }
    out
}

// ------------------------------------------------------------------------------------------
// child

fn write_files(dir: &Path, names: &[String], bytes: &[Vec<u8>]) {
    for (n, b) in names.iter().zip(bytes) {
        if b.as_slice() == simcore::fault::REMOVED {
            let _ = std::fs::remove_file(dir.join(n));
        } else {
            std::fs::write(dir.join(n), b).expect("write case file");
        }
    }
}

fn check_str(r: jubako::Result<bool>) -> String {
    match r {
        Ok(true) => "true".into(),
        Ok(false) => "false".into(),
        Err(e) => format!("Err:{}", dump::err_class(&e)),
    }
}

/// C04 observation: container check, file-level container-pack check, and the check of each
/// pack of the damaged files cut out at its pristine span.
fn observe_checks(entry: &Path, case_dir: &Path, names: &[String], spans: &[Vec<PackSpan>], touched: &[usize], extra: bool, by_cli: bool) -> Value {
    use jubako::Pack;
    // the repository's own command-line tool asked about every altered file, each in a process of
    // its own (`jbk check <file>`): "ok" | "ko" | "error" | how the process ended
    let mut cli_checks = BTreeMap::new();
    if by_cli {
        let cli = simcore::jbk_cli();
        for &fi in touched {
            let path = case_dir.join(&names[fi]);
            let (out, err, how) = simcore::run_jbk_cli(&cli, &["check".as_ref(), path.as_os_str()]);
            let answer = if how != "exit:0" {
                how
            } else if out.contains(" is ok") {
                "ok".to_string()
            } else if out.contains(" s ko") || out.contains(" is ko") {
                "ko".to_string()
            } else if err.contains("Error") {
                "error".to_string()
            } else {
                format!("said: {}{}", out.lines().next().unwrap_or(""), err.lines().next().unwrap_or(""))
            };
            cli_checks.insert(names[fi].clone(), answer);
        }
    }
    // (asked twice of the same object, opened after the alteration: an error the first time must
    // not turn into "all is well" the second time)
    let mut container_again = "not-asked".to_string();
    let container = match jubako::reader::Container::new(entry) {
        Ok(c) => {
            let first = check_str(c.check());
            if extra {
                container_again = check_str(c.check());
            }
            first
        }
        Err(e) => format!("OpenErr:{}", dump::err_class(&e)),
    };
    // the same question to a container that has been used first: every pack asked for, a content
    // of each read (what the container learnt while reading must not replace checking)
    let container_used = if !extra {
        "not-asked".to_string()
    } else { match jubako::reader::Container::new(entry) {
        Ok(c) => {
            for id in 0..=40u16 {
                if let Ok(Some(jubako::reader::MayMissPack::FOUND(p))) = c.get_pack(jubako::PackId::from(id)) {
                    if let Ok(Some(region)) = p.get_content(jubako::ContentIdx::from(0u32)) {
                        let _ = dump::read_region(&region);
                    }
                }
            }
            let _ = c.get_index_for_name("all");
            check_str(c.check())
        }
        Err(e) => format!("OpenErr:{}", dump::err_class(&e)),
    } };
    // and to a container whose process has no file descriptor left when the check runs (opening
    // a pack file then fails with EMFILE): the answer may be an error, not "all is well"
    let container_no_fd = if !extra {
        "not-asked".to_string()
    } else { match jubako::reader::Container::new(entry) {
        Ok(c) => {
            // RLIMIT_NOFILE bounds descriptor *numbers*: the limit is put at the lowest number
            // that is free right now, so that no new descriptor can be had whatever holes the
            // history of this process left above it
            let lowest_free = (3..4096).find(|n| unsafe { libc::fcntl(*n, libc::F_GETFD) } == -1).unwrap_or(4096) as u64;
            let r = unsafe {
                let mut old: libc::rlimit = std::mem::zeroed();
                libc::getrlimit(libc::RLIMIT_NOFILE, &mut old);
                let new = libc::rlimit {
                    rlim_cur: lowest_free,
                    rlim_max: old.rlim_max,
                };
                libc::setrlimit(libc::RLIMIT_NOFILE, &new);
                let r = c.check();
                libc::setrlimit(libc::RLIMIT_NOFILE, &old);
                r
            };
            check_str(r)
        }
        Err(e) => format!("OpenErr:{}", dump::err_class(&e)),
    } };
    let mut file_checks = BTreeMap::new();
    let mut pack_checks = BTreeMap::new();
    for &fi in touched {
        let path = case_dir.join(&names[fi]);
        let fc = match jubako::tools::open_pack(&path) {
            Ok(cp) => check_str(cp.check()),
            Err(e) => format!("OpenErr:{}", dump::err_class(&e)),
        };
        file_checks.insert(names[fi].clone(), fc);
        let data = std::fs::read(&path).unwrap_or_default();
        for (si, span) in spans[fi].iter().enumerate() {
            if span.kind == b'C' {
                continue;
            }
            let a = span.start as usize;
            let b = (span.start + span.size) as usize;
            let r = if b > data.len() {
                "Err:Truncated".to_string()
            } else {
                let reader: jubako::Reader = data[a..b].to_vec().into();
                match span.kind {
                    b'm' => match jubako::reader::ManifestPack::new(reader) {
                        Ok(p) => check_str(p.check()),
                        Err(e) => format!("OpenErr:{}", dump::err_class(&e)),
                    },
                    b'd' => match jubako::reader::DirectoryPack::new(reader) {
                        Ok(p) => check_str(p.check()),
                        Err(e) => format!("OpenErr:{}", dump::err_class(&e)),
                    },
                    _ => match jubako::reader::ContentPack::new(reader) {
                        Ok(p) => check_str(p.check()),
                        Err(e) => format!("OpenErr:{}", dump::err_class(&e)),
                    },
                }
            };
            pack_checks.insert(format!("{}#{}", names[fi], si), r);
        }
    }
    // (whether a descriptor number below the limit happens to be free depends on when background
    // threads of earlier containers close theirs: judged like the others, but kept out of the
    // deterministic record - `timing_dependent` keys are dropped before a record is digested)
    json!({"container": container, "container_asked_again": container_again, "container_after_use": container_used, "timing_dependent": {"container_without_descriptors": container_no_fd}, "files": file_checks, "packs": pack_checks, "command_line_tool": cli_checks})
}

fn fault_hits_manifest_slot(fault: &Fault, spans: &[Vec<PackSpan>]) -> bool {
    let ranges: Vec<(usize, u64, u64)> = match fault {
        Fault::Flip { file, pos, .. } => vec![(*file, *pos, *pos + 1)],
        Fault::Zero { file, pos, len } | Fault::Overwrite { file, pos, len, .. } => vec![(*file, *pos, *pos + *len)],
        Fault::Multi(v) => return v.iter().any(|f| fault_hits_manifest_slot(f, spans)),
        _ => vec![],
    };
    for (fi, lo, hi) in ranges {
        for s in &spans[fi] {
            if s.kind != b'm' {
                continue;
            }
            for slot in &s.info_slots {
                let a = s.start + slot;
                if lo < a + 256 && hi > a {
                    return true;
                }
            }
        }
    }
    false
}

pub fn child_main(args: &Args) -> ! {
    // rest: mode image_dir lo hi
    let mode = Mode::parse(&args.rest[0]);
    let image_dir = PathBuf::from(&args.rest[1]);
    let lo: u64 = args.rest[2].parse().unwrap();
    let hi: u64 = args.rest[3].parse().unwrap();
    let meta: Value =
        serde_json::from_str(&std::fs::read_to_string(image_dir.join("image.json")).unwrap()).unwrap();
    let names: Vec<String> = meta["files"]
        .as_array()
        .unwrap()
        .iter()
        .map(|s| s.as_str().unwrap().to_string())
        .collect();
    let spec = spec_from_json(&meta["spec"]);
    let faults: Vec<Fault> = std::fs::read_to_string(image_dir.join("faults.txt"))
        .unwrap()
        .lines()
        .map(|l| Fault::decode(l).expect("fault decodes"))
        .collect();
    let pristine_bytes: Vec<Vec<u8>> = names
        .iter()
        .map(|n| std::fs::read(image_dir.join("pristine").join(n)).unwrap())
        .collect();
    let spans: Vec<Vec<PackSpan>> = pristine_bytes.iter().map(|b| layout::scan_file(b)).collect();
    let case_dir = image_dir.join(format!("case-{}", std::process::id()));
    let _ = std::fs::remove_dir_all(&case_dir);
    std::fs::create_dir_all(&case_dir).unwrap();
    let entry = case_dir.join(&names[0]);

    let hooks = FHooks::install();
    proc::child::install_panic_hook();

    // full observation: the container dump, plus every pack opened directly through its own
    // constructor at its pristine span, plus (C05) the same again after a legitimate
    // set_location rewrite of every listed pack to its own pristine location
    let manifest_uuids: Vec<(uuid::Uuid, String)> = {
        write_files(&case_dir, &names, &pristine_bytes);
        let mut v = vec![];
        if let Ok(cp) = jubako::tools::open_pack(&entry) {
            if let Ok(Some(r)) = cp.get_manifest_pack_reader() {
                if let Ok(m) = jubako::reader::ManifestPack::new(r) {
                    let d = m.get_directory_pack_info();
                    v.push((d.uuid, d.pack_location.as_str().to_string()));
                    for i in m.get_pack_infos() {
                        v.push((i.uuid, i.pack_location.as_str().to_string()));
                    }
                }
            }
        }
        v
    };
    let moved_name = case_dir.join("moved-away.bin");
    let observe = |files: &[Vec<u8>], rewrite: bool, moved: bool| -> Dump {
        let mut d = dump::dump_container_moved(&entry, &spec, if moved { Some(moved_name.as_path()) } else { None });
        for (fi, fspans) in spans.iter().enumerate() {
            for (si, span) in fspans.iter().enumerate() {
                if span.kind == b'C' {
                    continue;
                }
                let a = span.start as usize;
                let b = (span.start + span.size) as usize;
                if b <= files[fi].len() {
                    dump::dump_direct(&format!("{}#{}", names[fi], si), &files[fi][a..b], span.kind, &mut d);
                } else {
                    d.push(format!("direct[{}#{}]", names[fi], si), Leaf::Err("Truncated".into()));
                }
            }
        }
        if rewrite {
            // a rewrite that changes nothing must not launder damaged pack descriptions
            let mut all_ok = true;
            for (u, loc) in &manifest_uuids {
                match jubako::tools::set_location(&entry, *u, loc.as_str().into()) {
                    Ok(Some(_)) => {}
                    _ => all_ok = false,
                }
            }
            // a refused rewrite is an error answer (accepted); a rewrite that succeeded is "ok"
            d.push(
                "after_rewrite/set_location",
                if all_ok { Leaf::Val("ok".into()) } else { Leaf::Err("refused".into()) },
            );
            let d2 = dump::dump_container(&entry, &spec);
            for (p, l) in d2.0 {
                d.push(format!("after_rewrite/{p}"), l);
            }
        }
        d
    };
    // pristine observation (must not fail: harness error otherwise)
    write_files(&case_dir, &names, &pristine_bytes);
    let pristine_dump = observe(&pristine_bytes, mode == Mode::C05, false);
    // what a container that was opened (and verified) on the pristine files reads
    let pristine_held_dump = {
        let mut d = Dump::default();
        if let Ok(c) = jubako::reader::Container::new(&entry) {
            let _ = c.check();
            dump::dump_opened(&c, &spec, &mut d);
        }
        d
    };

    for i in lo..hi {
        proc::child::begin(i);
        // one case in three also has jubako's reader-side streams return seeded short reads
        hooks.set_short_reads(if i % 3 == 1 { 250 } else { 0 }, i);
        // one damaged-file case in four is read in an environment where memory mappings cannot be
        // obtained (vm.max_map_count reached, address space exhausted): the library may answer
        // with errors, never with unverified data
        hooks.set_failing_sites(if mode != Mode::C04 && i % 4 == 2 { vec!["mmap"] } else { vec![] });
        // another case in eight meets a failing sector: one read of the file (seeded which one)
        // fails with EIO, the next ones work again
        if mode != Mode::C04 && i % 8 == 5 {
            hooks.set_failing_window("file_read", (i / 8) % 48, 1 + (i / 8) % 2);
        }
        // and another one in eight has no memory for a decoder context the first time (or the
        // second time) a compressed cluster is decoded; the next attempt works
        if mode != Mode::C04 && i % 8 == 7 {
            hooks.set_failing_window("decoder_build", (i / 8) % 2, 1);
        }
        let fault = &faults[i as usize];
        let mut files = pristine_bytes.clone();
        let fired = fault.apply(&mut files);
        // C04: handles opened on the pristine files, checked once, and asked again after the bytes
        // changed underneath (same inode): an altered byte must not be answered from a stale buffer
        let mut held: Vec<(String, jubako::reader::ContainerPack)> = vec![];
        let mut held_packs: Vec<(String, Box<dyn jubako::Pack>)> = vec![];
        if mode == Mode::C04 {
            write_files(&case_dir, &names, &pristine_bytes);
            for &fi in &fault.files() {
                if let Ok(cp) = jubako::tools::open_pack(case_dir.join(&names[fi])) {
                    let _ = cp.check();
                    // the pack objects themselves too (they cache their check info)
                    for (si, span) in spans[fi].iter().enumerate() {
                        if span.kind == b'C' {
                            continue;
                        }
                        let uuid = uuid::Uuid::from_bytes(span.uuid);
                        let Some(reader) = cp.get_pack_reader(&uuid) else { continue };
                        let pack: Option<Box<dyn jubako::Pack>> = match span.kind {
                            b'm' => jubako::reader::ManifestPack::new(reader).ok().map(|p| Box::new(p) as _),
                            b'd' => jubako::reader::DirectoryPack::new(reader).ok().map(|p| Box::new(p) as _),
                            _ => jubako::reader::ContentPack::new(reader).ok().map(|p| Box::new(p) as _),
                        };
                        if let Some(p) = pack {
                            let _ = p.check();
                            held_packs.push((format!("{}#{}", names[fi], si), p));
                        }
                    }
                    held.push((names[fi].clone(), cp));
                }
            }
        }
        // How the alteration arrives. Most cases: the files are simply written. Two cases in eleven
        // model a process that has already read the pristine files under these very names (what it
        // learnt then - verified blocks, open handles, located paths - must not answer for the bytes
        // that are there now) and an alteration that keeps the file's times: written in place
        // (same inode, same length, modification time put back, as a misdirected write or bit rot
        // does), or as a new file renamed over the name with the old times (rsync -t, cp -p, tar).
        let delivery = match i % 11 {
            5 => "in-place-times-kept",
            6 => "renamed-over-times-kept",
            _ => "written",
        };
        // (C05/C06, in-place delivery) a container opened and verified before the alteration and
        // read only after it: whatever it answers then is what was written, or an error
        let mut held_container: Option<jubako::reader::Container> = None;
        // (only for alterations that keep every file's length: a file that shrinks under a live
        // memory mapping takes the process down with SIGBUS whatever the library does - that is
        // what a mapping is, and outside every claimed property)
        let same_lengths = files.iter().zip(&pristine_bytes).all(|(a, b)| a.len() == b.len());
        if delivery == "written" || !same_lengths || files.iter().any(|b| b.as_slice() == simcore::fault::REMOVED) {
            write_files(&case_dir, &names, &files);
        } else {
            write_files(&case_dir, &names, &pristine_bytes);
            // the process reads (and verifies) what is there before the alteration
            match mode {
                Mode::C04 => {
                    if let Ok(c) = jubako::reader::Container::new(&entry) {
                        let _ = c.check();
                    }
                    for n in &names {
                        if let Ok(cp) = jubako::tools::open_pack(case_dir.join(n)) {
                            let _ = cp.check();
                        }
                    }
                }
                _ => {
                    let _ = dump::dump_container(&entry, &spec);
                    if delivery == "in-place-times-kept" {
                        held_container = jubako::reader::Container::new(&entry).ok();
                        if let Some(c) = &held_container {
                            let _ = c.check();
                        }
                    }
                }
            }
            for (n, b) in names.iter().zip(&files) {
                let path = case_dir.join(n);
                let meta = std::fs::metadata(&path).expect("stat case file");
                let times = std::fs::FileTimes::new()
                    .set_accessed(meta.accessed().expect("atime"))
                    .set_modified(meta.modified().expect("mtime"));
                let target = if delivery == "renamed-over-times-kept" { case_dir.join(format!("{n}.incoming")) } else { path.clone() };
                // (in place: over the bytes that are there, never through a truncation - readers
                // of the pristine file may still hold mappings of it)
                {
                    use std::io::Write;
                    let mut f = std::fs::OpenOptions::new().write(true).create(true).open(&target).expect("open case file");
                    f.write_all(b).expect("write case file");
                    f.set_times(times).expect("set file times");
                }
                if target != path {
                    std::fs::rename(&target, &path).expect("rename case file");
                }
            }
        }
        // (C06) one case in seven runs in a process whose standard error cannot be written to
        let broken_stderr = if mode == Mode::C06 && i % 7 == 4 { Some(proc::child::BrokenStderr::install()) } else { None };
        let payload = std::panic::catch_unwind(std::panic::AssertUnwindSafe(|| match mode {
            Mode::C04 => {
                let mut obs = observe_checks(&entry, &case_dir, &names, &spans, &fault.files(), i % 3 == 0, i % 41 == 7);
                let mut stale = serde_json::Map::new();
                for (n, cp) in &held {
                    stale.insert(n.clone(), json!(check_str(cp.check())));
                }
                for (n, p) in &held_packs {
                    stale.insert(format!("pack {n}"), json!(check_str(p.check())));
                }
                obs["held_handles"] = Value::Object(stale);
                json!({"fired": fired, "obs": obs, "delivery": delivery})
            }
            Mode::C05 | Mode::C06 => {
                // the rewrite step only for damage that lands in a manifest pack-info slot (it is
                // the only structure set_location reads and re-signs)
                let in_slot = mode == Mode::C05 && fault_hits_manifest_slot(fault, &spans);
                // a one-file container in one case out of five: the file is renamed once it is
                // open (log rotation, an upgrade that moves the old edition aside); the name it
                // was opened under resolves to nothing while the damaged blocks are met
                let moved = names.len() == 1 && i % 5 == 3;
                let d = observe(&files, in_slot, moved);
                let env_faults = hooks.take_faults_fired();
                let reference = if in_slot {
                    pristine_dump.clone()
                } else {
                    Dump(pristine_dump.0.iter().filter(|(p, _)| !p.starts_with("after_rewrite/")).cloned().collect())
                };
                // a whole pack overwritten by a sibling pack (sector copies are exactly 512 bytes long)
                // ... or a sector that holds one complete small pack (header, body and tail all
                // within the copied range): wherever it lands there is a whole valid pack, which no
                // check can tell from one that was written there
                let pack_copy = match fault {
                    Fault::CopyRange { len, .. } if *len != 512 => true,
                    Fault::CopyRange { file, src, len, .. } => {
                        let b = &pristine_bytes[*file];
                        let (a, e) = (*src as usize, (*src + *len) as usize);
                        a + 128 <= b.len()
                            && &b[a..a + 3] == b"jbk"
                            && b[a + 3] != b'C'
                            && {
                                let size = u64::from_le_bytes(b[a + 32..a + 40].try_into().unwrap()) as usize;
                                size >= 128 && a + size <= e.min(b.len()) && b[a..a + 64].iter().eq(b[a + size - 64..a + size].iter().rev())
                            }
                    }
                    _ => false,
                };
                let removed = fault.encode().contains("remove:") || pack_copy;
                let mut diffs = dump::structural_diff_opts(&reference, &d, removed);
                if pack_copy {
                    // the harness's own direct look at the overwritten span finds the sibling pack,
                    // a valid pack in its own right: only what the container says is judged
                    diffs.retain(|x| !x.starts_with("direct["));
                    if matches!(fault, Fault::CopyRange { dst: 0, .. }) {
                        // the copy landed at the very start: the file now begins with that whole
                        // valid pack, and listing it as the file of that pack is a true answer
                        diffs.retain(|x| !x.starts_with("file/"));
                    }
                }
                let mut held_asked = false;
                if let (Some(c), false) = (&held_container, pack_copy) {
                    let mut hd = Dump::default();
                    dump::dump_opened(c, &spec, &mut hd);
                    held_asked = true;
                    for x in dump::structural_diff_opts(&pristine_held_dump, &hd, removed) {
                        diffs.push(format!("container opened and verified before the alteration, read after it: {x}"));
                    }
                }
                let nerr = d.0.iter().filter(|(_, l)| l.is_err()).count();
                let changed = d != reference;
                json!({
                    "fired": fired,
                    "moved_after_open": moved,
                    "delivery": delivery,
                    "container_opened_before_read_after": held_asked,
                    "mmap_refused": env_faults.get("mmap").copied().unwrap_or(0),
                    "read_failed": env_faults.get("file_read").copied().unwrap_or(0),
                    "decoder_refused": env_faults.get("decoder_build").copied().unwrap_or(0),
                    "diffs": diffs.iter().take(6).collect::<Vec<_>>(),
                    "ndiffs": diffs.len(),
                    // (how many reads of a damaged compressed cluster still get their bytes and
                    // how many get the decoder's error depends on how far the real decoder thread
                    // has come: statistics, kept out of the deterministic record)
                    "timing_dependent": {"errs": nerr, "changed": changed},
                    "open": d.get("open").map(|l| l.short()),
                    "check": d.get("check").map(|l| l.short()),
                })
            }
        }));
        let stderr_was_broken = broken_stderr.is_some();
        drop(broken_stderr);
        match payload {
            Ok(mut v) => {
                v["stderr_unusable"] = json!(stderr_was_broken);
                if mode != Mode::C04 && i % 8 == 5 {
                    // a failing sector was armed: which read meets it can depend on what the
                    // background decoder threads have done by then (about one case in 100 000
                    // differs between two runs). The case is judged like every other; its
                    // details stay out of the deterministic record.
                    v = json!({"fired": fired, "timing_dependent": v});
                }
                proc::child::end(i, &v.to_string())
            }
            Err(_) => proc::child::end(i, &json!({"fired": fired, "caught_panic": true, "stderr_unusable": stderr_was_broken}).to_string()),
        }
    }
    let _ = std::fs::remove_dir_all(&case_dir);
    std::process::exit(0)
}

// ------------------------------------------------------------------------------------------
// worker

fn structure_at(img: &ImageInfo, fault: &Fault) -> String {
    // which structure the (first) damaged position falls into, for signatures and evidence
    let (fi, pos) = match fault {
        Fault::Flip { file, pos, .. }
        | Fault::FlipFix { file, pos, .. }
        | Fault::Zero { file, pos, .. }
        | Fault::Overwrite { file, pos, .. } => (*file, *pos),
        Fault::Truncate { file, len } => (*file, *len),
        Fault::Multi(v) => return v.first().map(|f| structure_at(img, f)).unwrap_or_default(),
        other => return format!("whole-file:{}", other.kind()),
    };
    let spans = &img.spans[fi];
    // innermost span containing pos
    let mut best: Option<&PackSpan> = None;
    for s in spans {
        if s.contains(pos) && (best.is_none() || s.size <= best.unwrap().size) {
            best = Some(s);
        }
    }
    match best {
        None => "outside-any-pack".into(),
        Some(s) => {
            let rel = pos - s.start;
            let part = if rel < 64 {
                "pack-header"
            } else if rel < 128 {
                "kind-header"
            } else if rel >= s.size - 64 {
                "pack-tail"
            } else if rel >= s.check_info_pos {
                "check-block"
            } else {
                "body"
            };
            format!("{}:{}", s.kind as char, part)
        }
    }
}

fn norm_panic(p: &str) -> String {
    // "thread=.. at=/repo/src/x.rs:12 msg=..." -> file + message with digits collapsed
    let at = p
        .split(" at=")
        .nth(1)
        .and_then(|s| s.split(' ').next())
        .unwrap_or("?");
    let file = at.rsplit_once(':').map(|(f, _)| f).unwrap_or(at);
    let file = file.strip_prefix("/repo/").unwrap_or(file);
    let msg = p.split(" msg=").nth(1).unwrap_or("");
    let mut norm = String::new();
    let mut last_digit = false;
    for c in msg.chars() {
        if c.is_ascii_digit() {
            if !last_digit {
                norm.push('N');
            }
            last_digit = true;
        } else {
            norm.push(c);
            last_digit = false;
        }
    }
    let norm: String = norm.chars().take(90).collect();
    format!("{file}|{norm}")
}

pub fn worker_main(args: &Args, mode: Mode, w: usize, n: usize) -> ! {
    let hooks = FHooks::install();
    let scratch = simcore::Scratch::new(&format!("{}-w{w}", mode.id()));
    let images = build_images(&hooks, args, &scratch);
    let profile = std::env::var("VERIF_CHILD_PROFILE").unwrap_or_else(|_| "release".into());
    let child_bin = std::env::var("VERIF_CHILD_BIN").ok();
    let watchdog = Duration::from_secs(
        std::env::var("VERIF_WATCHDOG_S")
            .ok()
            .and_then(|s| s.parse().ok())
            .unwrap_or(20),
    );
    for (ii, img) in images.iter().enumerate() {
        let faults = faults_for(mode, args.tier, args.seed, img);
        let total = faults.len() as u64;
        // contiguous slice of this image's fault list for this worker
        let lo = total * w as u64 / n as u64;
        let hi = total * (w as u64 + 1) / n as u64;
        println!(
            "{}",
            json!({"t":"image","image":img.name,"index":ii,"desc":img.desc,"faults":total,
                   "bytes": img.bytes.iter().map(|b| b.len()).collect::<Vec<_>>(),
                   "layout": img.spans.iter().map(|s| layout::describe(s)).collect::<Vec<_>>(),
                   "pristine_digest": format!("{:016x}", img.pristine.digest())})
        );
        if lo >= hi {
            continue;
        }
        let dir = scratch.sub(&format!("run-{}", img.name));
        std::fs::create_dir_all(dir.join("pristine")).unwrap();
        write_files(&dir.join("pristine"), &img.files, &img.bytes);
        std::fs::write(
            dir.join("image.json"),
            json!({"files": img.files, "spec": spec_to_json(&img.spec)}).to_string(),
        )
        .unwrap();
        std::fs::write(
            dir.join("faults.txt"),
            faults.iter().map(|f| f.encode()).collect::<Vec<_>>().join("\n"),
        )
        .unwrap();
        let dir_s = dir.to_str().unwrap().to_string();
        let make_args = |a: u64, b: u64| -> Vec<String> {
            vec![
                "child-damage".into(),
                mode.id().into(),
                dir_s.clone(),
                a.to_string(),
                b.to_string(),
            ]
        };
        let outcomes = match &child_bin {
            None => proc::run_batch(&make_args, lo, hi, watchdog),
            Some(bin) => proc::run_batch_with(Path::new(bin), &make_args, lo, hi, watchdog),
        };
        for (i, outcome) in outcomes {
            let rec = case_record(img, ii, i, &faults[i as usize], outcome, &profile);
            println!("{rec}");
        }
        let _ = std::fs::remove_dir_all(&dir);
    }
    proc::flush_stdout();
    drop(scratch);
    std::process::exit(0)
}

// ------------------------------------------------------------------------------------------
// parent: oracles, evidence, verdict

struct Violation {
    signature: String,
    image: String,
    fault: String,
    detail: Value,
}

fn c04_violation(rec: &Value, exempt: bool) -> Option<String> {
    if rec["outcome"] != "done" {
        return None; // a dead or hung reader did not answer "true"
    }
    let p = &rec["payload"];
    if p["caught_panic"] == true || p["fired"] != true || exempt {
        return None;
    }
    let obs = &p["obs"];
    let mut trues = vec![];
    if obs["container"] == "true" {
        trues.push("Container::check".to_string());
    }
    if obs["container_asked_again"] == "true" {
        trues.push("Container::check(second call on the same container)".to_string());
    }
    if obs["timing_dependent"]["container_without_descriptors"] == "true" {
        trues.push("Container::check(no file descriptor left: pack files cannot be opened)".to_string());
    }
    if obs["container_after_use"] == "true" {
        trues.push("Container::check(after packs and contents were read through it)".to_string());
    }
    for (k, v) in obs["files"].as_object().into_iter().flatten() {
        if v == "true" {
            let _ = k;
            trues.push("ContainerPack::check(file)".to_string());
        }
    }
    for (_, v) in obs["command_line_tool"].as_object().into_iter().flatten() {
        if v == "ok" {
            trues.push("`jbk check <file>` (the command-line tool) says ok".to_string());
        }
    }
    // Handles and pack objects opened BEFORE the alteration are observed (statistics in the
    // evidence) but not judged: a reader may legitimately cache what it has read (pack objects
    // cache their check info, directory packs are copied into memory), so only freshly opened
    // handles are required to notice the alteration.
    // only the pack that contains the damage is required to fail its own check
    for (k, v) in obs["packs"].as_object().into_iter().flatten() {
        if v == "true" && rec["damaged_pack"].as_str() == Some(k.as_str()) {
            trues.push("Pack::check(damaged pack)".to_string());
        }
    }
    if trues.is_empty() {
        None
    } else {
        Some(trues.join(","))
    }
}

/// The debug-assertions build of this binary: <target>/debug/simf next to <target>/release/simf.
fn debug_bin() -> String {
    if let Ok(p) = std::env::var("VERIF_DEBUG_BIN") {
        return p;
    }
    let exe = std::env::current_exe().expect("current_exe");
    exe.parent()
        .and_then(|p| p.parent())
        .map(|t| t.join("debug").join("simf"))
        .unwrap_or_else(|| PathBuf::from("/verif/sim/target/debug/simf"))
        .to_string_lossy()
        .to_string()
}

/// The verdict on one case record (shared by the campaign and by `--replay`): the violation's
/// signature, or None. `rec["damaged_pack"]` must be set for C04.
fn judge_case(mode: Mode, profile: &str, rec: &Value, exempt: bool) -> Option<String> {
    let kind = rec["kind"].as_str().unwrap_or("?");
    let outcome = rec["outcome"].as_str().unwrap_or("?");
    let structure = rec["structure"].as_str().unwrap_or("");
    let panics: Vec<String> = rec["panics"]
        .as_array()
        .map(|a| a.iter().filter_map(|s| s.as_str().map(|s| s.to_string())).collect())
        .unwrap_or_default();
    match mode {
        Mode::C04 => c04_violation(rec, exempt)
            .map(|what| format!("C04|{kind}|{structure}|still-true:{what}")),
        Mode::C05 => {
            if outcome != "done" || rec["payload"]["caught_panic"] == true {
                return None; // deferred to C06
            }
            let nd = rec["payload"]["ndiffs"].as_u64().unwrap_or(0);
            if nd == 0 {
                return None;
            }
            let first = rec["payload"]["diffs"][0].as_str().unwrap_or("").to_string();
            let leaf = first.split(':').next().unwrap_or("").to_string();
            // leaf path with indices collapsed
            let leaf_norm: String = leaf
                .chars()
                .map(|c| if c.is_ascii_digit() { 'N' } else { c })
                .collect();
            Some(format!("C05|{kind}|{structure}|{leaf_norm}"))
        }
        Mode::C06 => {
            let class = if outcome == "hung" {
                Some("hang".to_string())
            } else if outcome == "died" {
                Some(format!("died:{}", rec["how"].as_str().unwrap_or("?")))
            } else if rec["payload"]["caught_panic"] == true || !panics.is_empty() {
                Some("panic".to_string())
            } else {
                None
            };
            class.map(|class| {
                let p0 = panics.first().cloned().unwrap_or_default();
                format!("C06|{profile}|{kind}|{structure}|{class}|{p0}")
            })
        }
    }
}

/// One case record as the workers print it.
/// Details that were kept out of the deterministic record are judged like all the others.
fn merge_timing_dependent(rec: &mut Value) {
    if let Some(Value::Object(td)) = rec["payload"].as_object_mut().and_then(|p| p.remove("timing_dependent")) {
        for (k, v) in td {
            rec["payload"][k] = v;
        }
    }
}

fn case_record(img: &ImageInfo, ii: usize, i: u64, fault: &Fault, outcome: CaseOutcome, profile: &str) -> Value {
    let structure = structure_at(img, fault);
    match outcome {
        CaseOutcome::Done(payload) => {
            let (js, panics) = match payload.split_once(" |panics: ") {
                Some((a, b)) => (a.to_string(), Some(b.to_string())),
                None => (payload, None),
            };
            let v: Value = serde_json::from_str(&js).unwrap_or(json!({"unparsed": js}));
            json!({"t":"case","image":img.name,"ii":ii,"i":i,"fault":fault.encode(),"kind":fault.kind(),
                   "structure":structure,"outcome":"done","payload":v,
                   "panics": panics.map(|p| p.split(" ; ").map(norm_panic).collect::<Vec<_>>()),
                   "profile": profile})
        }
        CaseOutcome::Died { how, panics } => {
            json!({"t":"case","image":img.name,"ii":ii,"i":i,"fault":fault.encode(),"kind":fault.kind(),
                   "structure":structure,"outcome":"died","how":how,
                   "panics": panics.iter().map(|p| norm_panic(p)).collect::<Vec<_>>(),
                   "profile": profile})
        }
        CaseOutcome::Hung { panics } => {
            json!({"t":"case","image":img.name,"ii":ii,"i":i,"fault":fault.encode(),"kind":fault.kind(),
                   "structure":structure,"outcome":"hung",
                   "panics": panics.iter().map(|p| norm_panic(p)).collect::<Vec<_>>(),
                   "profile": profile})
        }
    }
}

/// Files that exist on any Linux system and are not Jubako files (C06's "not a Jubako file at all").
const SPECIAL_FILES: [&str; 10] = [
    "/sys/kernel/mm/transparent_hugepage/enabled",
    "/sys/kernel/mm/transparent_hugepage/defrag",
    "/sys/devices/system/cpu/online",
    "/proc/self/status",
    "/proc/cpuinfo",
    "/proc/version",
    "/proc/self/maps",
    "/dev/null",
    "/dev/zero",
    "/dev/urandom",
];

/// Open and read `path` with every entry point, in a child process: "done", "panic: ..",
/// "signal:N" or "stalled".
fn run_special_child(exe: &str, path: &str) -> String {
    let mut child = std::process::Command::new(exe)
        .arg("child-special")
        .arg(path)
        .stdin(std::process::Stdio::null())
        .stdout(std::process::Stdio::null())
        .stderr(std::process::Stdio::piped())
        .spawn()
        .expect("spawn special-file child");
    let start = std::time::Instant::now();
    loop {
        match child.try_wait() {
            Ok(Some(st)) => {
                use std::os::unix::process::ExitStatusExt;
                let mut err = String::new();
                if let Some(mut e) = child.stderr.take() {
                    use std::io::Read;
                    let _ = e.read_to_string(&mut err);
                }
                return match (st.code(), st.signal()) {
                    (Some(0), _) => "done".into(),
                    (Some(101), _) => format!("panic: {}", err.lines().find(|l| l.contains("panicked at")).unwrap_or("").trim()),
                    (Some(c), _) => format!("exit:{c}"),
                    (None, Some(s)) => format!("signal:{s}"),
                    _ => "unknown".into(),
                };
            }
            Ok(None) => {
                if start.elapsed().as_secs() > 20 {
                    let _ = child.kill();
                    let _ = child.wait();
                    return "stalled".into();
                }
                std::thread::sleep(std::time::Duration::from_millis(2));
            }
            Err(_) => return "wait-error".into(),
        }
    }
}

/// "panic: thread 'main' (123) panicked at src/bases/io/buffer.rs:33:9:" -> "panic@src/bases/io/buffer.rs"
fn special_outcome_class(outcome: &str) -> String {
    if let Some(rest) = outcome.split("panicked at ").nth(1) {
        let file = rest.split(':').next().unwrap_or("?");
        let file = file.strip_prefix("/repo/").unwrap_or(file);
        return format!("panic@{file}");
    }
    outcome.split_whitespace().next().unwrap_or("?").to_string()
}

/// child: every way of opening a file, on something that is not a Jubako file
pub fn special_child_main(args: &Args) -> ! {
    let path = &args.rest[0];
    let _ = jubako::reader::Container::new(path).map(|c| c.check());
    let _ = jubako::tools::open_pack(path).map(|p| p.check());
    if let Ok(fs) = jubako::FileSource::open(path) {
        let reader: jubako::Reader = fs.into();
        let _ = jubako::reader::ContentPack::new(reader);
    }
    if let Ok(fs) = jubako::FileSource::open(path) {
        let reader: jubako::Reader = fs.into();
        let _ = jubako::reader::DirectoryPack::new(reader);
    }
    if let Ok(fs) = jubako::FileSource::open(path) {
        let reader: jubako::Reader = fs.into();
        let _ = jubako::reader::ManifestPack::new(reader);
    }
    if let Ok(fs) = jubako::FileSource::open(path) {
        let reader: jubako::Reader = fs.into();
        let _ = jubako::reader::ContainerPack::new(reader);
    }
    std::process::exit(0)
}

pub fn parent_main(args: &Args, mode: Mode) -> ! {
    let id = mode.id();
    let level = "fault_enumeration";
    let mut ev = Evidence::new(id, args.tier.name(), args.seed, level);
    let known = report::load_known_findings();
    let n = proc::n_workers();
    let profiles: Vec<(&str, Option<String>)> = if mode == Mode::C06 {
        let dbg = debug_bin();
        if !Path::new(&dbg).exists() {
            simcore::harness_error(&format!("debug-profile binary {dbg} missing (run ./run builds it)"));
        }
        vec![("release", None), ("debug", Some(dbg))]
    } else {
        vec![("release", None)]
    };
    let mut violations: Vec<Violation> = Vec::new();
    let mut known_hits: BTreeMap<String, (u64, String)> = BTreeMap::new();
    let mut images_seen: BTreeMap<String, Value> = BTreeMap::new();
    let mut outcome_counts: BTreeMap<String, u64> = BTreeMap::new();
    let mut faultfree_seen: std::collections::BTreeSet<String> = std::collections::BTreeSet::new();
    let mut held_stale_true = 0u64;
    let mut held_noticed = 0u64;
    let mut cli_answers: BTreeMap<String, u64> = BTreeMap::new();
    let mut exempt_counted = 0u64;
    let mut digests: Vec<String> = vec![];
    let mut deferred = 0u64;
    // the parent needs the images only for C04's exemption / damaged-pack attribution
    let hooks = FHooks::install();
    let scratch = simcore::Scratch::new(&format!("{id}-parent"));
    let imgs = if mode == Mode::C04 {
        build_images(&hooks, args, &scratch)
    } else {
        vec![]
    };
    for (profile, bin) in &profiles {
        let mut wargs: Vec<String> = vec![
            args.cmd.clone(),
            "--tier".into(),
            args.tier.name().into(),
            "--seed".into(),
            args.seed.to_string(),
        ];
        wargs.extend(args.rest.iter().cloned());
        std::env::set_var("VERIF_CHILD_PROFILE", profile);
        match bin {
            Some(b) => std::env::set_var("VERIF_CHILD_BIN", b),
            None => std::env::remove_var("VERIF_CHILD_BIN"),
        }
        let outs = proc::fan_out(n, &wargs);
        for o in &outs {
            if !o.ok {
                simcore::harness_error(&format!("worker {} failed: {}", o.index, o.status));
            }
        }
        // merge in (image index, case index) order so that the result does not depend on n
        // (kept as the text the workers printed, parsed one at a time below: millions of parsed
        // records at once cost tens of gigabytes in the thorough tier)
        let mut recs: Vec<(u64, u64, String)> = Vec::new();
        for o in outs {
            for line in o.lines {
                let Ok(v) = serde_json::from_str::<Value>(&line) else {
                    continue;
                };
                if v["t"] == "faultfree" {
                    let img = v["image"].as_str().unwrap_or("").to_string();
                    if faultfree_seen.insert(img.clone()) {
                        let first = v["mismatch"][0].as_str().unwrap_or("").to_string();
                        let leaf: String = first.split(':').next().unwrap_or("").chars().map(|c| if c.is_ascii_digit() { 'N' } else { c }).collect();
                        violations.push(Violation {
                            signature: format!("{id}|fault-free|{leaf}"),
                            image: img,
                            fault: "none".into(),
                            detail: v.clone(),
                        });
                    }
                } else if v["t"] == "image" {
                    images_seen.entry(v["image"].as_str().unwrap().to_string()).or_insert(v);
                } else if v["t"] == "case" {
                    recs.push((v["ii"].as_u64().unwrap_or(0), v["i"].as_u64().unwrap_or(0), line));
                }
            }
        }
        recs.sort_by_key(|r| (r.0, r.1));
        digests.push(report::digest_record_lines(recs.iter().map(|r| r.2.as_str())));
        if let Ok(f) = std::env::var("VERIF_DUMP_RECORDS") {
            // (debugging aid for the determinism self-test: the ordered records of this run)
            let _ = std::fs::write(format!("{f}.{profile}"), recs.iter().map(|r| r.2.as_str()).collect::<Vec<_>>().join("\n"));
        }
        for mut rec in recs.into_iter().map(|(_, _, line)| serde_json::from_str::<Value>(&line).expect("record parsed before")) {
            merge_timing_dependent(&mut rec);
            ev.evaluations += 1;
            let kind = rec["kind"].as_str().unwrap_or("?").to_string();
            let fired = rec["payload"]["fired"].as_bool().unwrap_or(true);
            let outcome = rec["outcome"].as_str().unwrap_or("?").to_string();
            *outcome_counts.entry(format!("{profile}:{outcome}")).or_insert(0) += 1;
            if rec["payload"]["stderr_unusable"] == true {
                ev.fired("environment:standard-error-unusable (EPIPE)", 1);
            }
            match rec["payload"]["delivery"].as_str() {
                Some("in-place-times-kept") if rec["payload"]["container_opened_before_read_after"] == true => ev.fired("alteration-in-place-with-the-file-times-kept, after this process read the pristine file; a container opened and verified before it is read after it", 1),
                Some("in-place-times-kept") => ev.fired("alteration-in-place-with-the-file-times-kept, after this process read the pristine file", 1),
                Some("renamed-over-times-kept") => ev.fired("alteration-as-a-new-file-renamed-over-the-name-with-the-old-times, after this process read the pristine file", 1),
                _ => {}
            }
            if rec["payload"]["moved_after_open"] == true {
                ev.fired("environment:container-file-renamed-once-open", 1);
            }
            let refused = rec["payload"]["mmap_refused"].as_u64().unwrap_or(0);
            if refused > 0 {
                ev.fired("syscall-failure:mmap-refused", refused);
            }
            let dr = rec["payload"]["decoder_refused"].as_u64().unwrap_or(0);
            if dr > 0 {
                ev.fired("allocation-failure:decoder-context-ENOMEM", dr);
            }
            let rf = rec["payload"]["read_failed"].as_u64().unwrap_or(0);
            if rf > 0 {
                ev.fired("syscall-failure:file-read-EIO", rf);
            }
            if fired {
                ev.fired(&kind, 1);
                ev.distinct.insert(simcore::prng::hash_label(
                    0,
                    &format!("{}|{}", rec["image"], rec["fault"]),
                    0,
                ));
            }
            if ev.samples.len() < 6 && fired && ev.evaluations % 9973 == 1 {
                ev.sample(rec.clone());
            }
            let image = rec["image"].as_str().unwrap_or("").to_string();
            let fault_s = rec["fault"].as_str().unwrap_or("").to_string();
            let mut exempt = false;
            if mode == Mode::C04 {
                let fault = Fault::decode(&fault_s).unwrap();
                let img = imgs.iter().find(|i| i.name == image).unwrap();
                let (ex, damaged_pack) = c04_attribution(img, &fault);
                exempt = ex;
                if exempt {
                    exempt_counted += 1;
                }
                rec["damaged_pack"] = json!(damaged_pack);
                for (_k, v) in rec["payload"]["obs"]["command_line_tool"].as_object().into_iter().flatten() {
                    *cli_answers.entry(v.as_str().unwrap_or("?").to_string()).or_insert(0u64) += 1;
                }
                for (_k, v) in rec["payload"]["obs"]["held_handles"].as_object().into_iter().flatten() {
                    if v == "true" {
                        held_stale_true += 1;
                    } else {
                        held_noticed += 1;
                    }
                }
            }
            if mode == Mode::C05 && (outcome != "done" || rec["payload"]["caught_panic"] == true) {
                deferred += 1;
            }
            if let Some(signature) = judge_case(mode, profile, &rec, exempt) {
                violations.push(Violation {
                    signature,
                    image,
                    fault: fault_s,
                    detail: rec.clone(),
                });
            }
        }
    }
    // (C06) files that are not Jubako files at all, of the special kind: pseudo files whose
    // reported size promises more than can be read (sysfs), files of size 0 that deliver data
    // (procfs), character devices. One child per file and profile; a panic, signal or stall is a
    // violation like for any other non-Jubako file.
    let mut special_cases = 0u64;
    if mode == Mode::C06 {
        for (profile, bin) in &profiles {
            let exe = bin.clone().unwrap_or_else(|| std::env::current_exe().unwrap().to_string_lossy().to_string());
            for path in SPECIAL_FILES {
                if !Path::new(path).exists() {
                    continue;
                }
                special_cases += 1;
                ev.evaluations += 1;
                ev.fired("special-file (pseudo file / device)", 1);
                ev.distinct.insert(simcore::prng::hash_label(0, &format!("special|{profile}|{path}"), 0));
                let outcome = run_special_child(&exe, path);
                *outcome_counts.entry(format!("{profile}:special:{}", outcome.split(':').next().unwrap_or("?"))).or_insert(0) += 1;
                if outcome != "done" {
                    violations.push(Violation {
                        signature: format!("{id}|{profile}|special-file|{path}|{}", special_outcome_class(&outcome)),
                        image: "special-file".into(),
                        fault: path.to_string(),
                        detail: json!({"special_file": path, "profile": profile, "outcome": outcome}),
                    });
                }
            }
        }
        ev.extra.insert("special_file_cases".into(), json!(special_cases));
    }
    // (C04) manifests above 1 MiB with crafted alterations of pack descriptions (bigmanifest.rs)
    if mode == Mode::C04 && std::env::var("VERIF_ONLY_IMAGE").is_err() {
        let r = crate::bigmanifest::pass(args.tier, args.seed, &scratch.sub("bigmanifest"), n);
        ev.evaluations += r.cases;
        ev.fired("crafted: checked byte of a pack description of a manifest above 1 MiB altered, description CRC recomputed", r.fired);
        for img in &r.images {
            ev.distinct.insert(simcore::prng::hash_label(0, &img.to_string(), 0));
        }
        ev.extra.insert("big_manifest_images".into(), json!(r.images));
        for (image, fault, detail) in r.violations {
            violations.push(Violation {
                signature: if fault == "none" {
                    format!("{id}|fault-free|big-manifest")
                } else {
                    format!("{id}|big-manifest|still-true:ManifestPack::check|byte {} of a pack description", detail["byte_within_pack_description"])
                },
                image,
                fault,
                detail,
            });
        }
    }
    // classify violations: known findings vs new
    let mut new_violations: Vec<&Violation> = Vec::new();
    for v in &violations {
        match report::match_known(&known, id, &v.signature) {
            Some(k) => {
                let e = known_hits.entry(k.id.clone()).or_insert((0, k.what.clone()));
                e.0 += 1;
            }
            None => new_violations.push(v),
        }
    }
    for (kid, (count, what)) in &known_hits {
        println!("KNOWN-FINDING: property={id} {kid}: {what} ({count} cases this run)");
    }
    ev.rule = match mode {
        Mode::C04 => "images = fixed grid (5 packagings x 4 compressions x {1,5,40} contents) + multi-pack, >4KiB-directory, 1100-content and >16MiB-value-store images; faults = every byte of every manifest/directory/content pack's checked range [pack start, check block end) x masks on small images (seeded sample + header + check block on large ones) plus seeded 2..64-byte zero/overwrite ranges; a case is non-trivial when the fault changed at least one stored byte; distinct = distinct (image, fault)".to_string(),
        Mode::C05 => "same images; faults = every file position x masks on small images (sampled on large ones), seeded 2..512-byte zero/overwrite ranges, two-site flips; each case: full logical dump of the damaged file set in a child process compared leaf by leaf with the pristine dump; non-trivial = the fault changed a stored byte; distinct = distinct (image, fault)".to_string(),
        Mode::C06 => "same images; faults = every truncation length, byte flips, zero/overwrite ranges, appended/prepended garbage, empty file, random non-jubako file, file swapped with another file of the set; each case run in a child process in a release and in a debug(-assertions) build; outcome classes: value/error (ok), panic (hook), death by abort/signal, silence past the watchdog; non-trivial = the fault changed a stored byte; distinct = distinct (image, fault) over both profiles".to_string(),
    };
    ev.extra.insert("run_digest".into(), json!(digests.join("-")));
    println!("DIGEST {id} {}", digests.join("-"));
    ev.extra.insert("images".into(), json!(images_seen.len()));
    ev.extra.insert("image_list".into(), json!(images_seen.values().map(|v| json!({"image": v["image"], "desc": v["desc"], "bytes": v["bytes"], "faults": v["faults"], "layout": v["layout"]})).collect::<Vec<_>>()));
    ev.extra.insert("outcomes".into(), json!(outcome_counts));
    ev.extra.insert("workers".into(), json!(n));
    ev.extra.insert("known_finding_hits".into(), json!(known_hits.iter().map(|(k, v)| (k.clone(), v.0)).collect::<BTreeMap<_, _>>()));
    ev.extra.insert(
        "real_vs_stub".into(),
        json!({"real": ["jubako creator and reader", "zstd/lz4/xz2 codecs", "threads, rayon pools, spmc", "file system (tmpfs) and mmap"],
               "simulated": ["stored bytes between creation and open (fault injection)", "OS randomness (seeded getrandom backend)", "pack map iteration order (sorted)"],
               "stub": []}),
    );
    match mode {
        Mode::C04 => {
            ev.extra.insert("exempt_cases_location_bytes_or_shadowed_duplicate".into(), json!(exempt_counted));
            ev.extra.insert("altered_files_asked_through_the_jbk_command_line_tool".into(), json!({"answers": cli_answers, "judged": "an 'ok' for a file with an altered checksummed byte is a violation", "real": "src/bin/jbk built from the repository's manifest, one process per question"}));
            ev.extra.insert("handles_opened_before_the_alteration".into(), json!({"answered_not_true": held_noticed, "answered_true_from_cached_state": held_stale_true, "judged": false}));
        }
        Mode::C05 => {
            ev.extra.insert("deferred_to_C06".into(), json!(deferred));
            if let Ok(path) = std::env::var("VERIF_C05T_SUMMARY") {
                if let Ok(text) = std::fs::read_to_string(&path) {
                    if let Ok(v) = serde_json::from_str::<Value>(&text) {
                        ev.extra.insert("t_flavour_pass".into(), v);
                    }
                }
            }
        }
        Mode::C06 => {
            if let Ok(path) = std::env::var("VERIF_C06T_SUMMARY") {
                if let Ok(text) = std::fs::read_to_string(&path) {
                    if let Ok(v) = serde_json::from_str::<Value>(&text) {
                        ev.extra.insert("t_flavour_pass".into(), v);
                    }
                }
            }
            ev.extra.insert("profiles".into(), json!(["release", "debug"]));
            ev.assumptions.push("in the process-level campaign non-termination is nominated by a wall-clock watchdog (20 s of silence for cases that normally take ~1 ms); the T-flavour pass (coverage.t_flavour_pass) decides it without a clock for the background-decoder path: deadlock detection and a step bound under the simulator's scheduler".into());
        }
    }
    ev.assumptions.push("CRC-32C detects every burst <= 32 bits; for longer damage a 2^-32 collision per block is possible in principle (fixed seed makes any such hit reproducible)".into());
    ev.assumptions.push("the layout scanner (64-byte header fields, container locators, manifest slots) only decides where faults land, never a verdict".into());
    ev.violations = new_violations.len() as u64;
    // report (at most a few) new violations with replay files
    let mut seen_sigs = std::collections::BTreeSet::new();
    for v in &new_violations {
        if !seen_sigs.insert(v.signature.clone()) || seen_sigs.len() > 12 {
            continue;
        }
        let path = report::write_replay(
            id,
            args.seed,
            &format!("{}-{}", v.image, v.fault),
            json!({"property": id, "seed": args.seed, "tier": args.tier.name(), "image": v.image,
                   "fault": v.fault, "signature": v.signature, "detail": v.detail,
                   "replay": format!("./run {} --replay <this file>", id.to_lowercase())}),
        );
        println!("VIOLATION property={id} replay={}", path.display());
        eprintln!("  signature: {}", v.signature);
    }
    if std::env::var("VERIF_SHOW_SIGS").is_ok() {
        let mut counts: BTreeMap<String, u64> = BTreeMap::new();
        for v in &violations {
            *counts.entry(v.signature.clone()).or_insert(0) += 1;
        }
        for (s, c) in &counts {
            eprintln!("SIG {c:6} {s}");
        }
    }
    if !new_violations.is_empty() {
        eprintln!("{} violating cases, {} distinct signatures", new_violations.len(), seen_sigs.len());
    }
    if ev.distinct.len() < 2 {
        simcore::harness_error("fewer than 2 non-trivial cases: nothing was tested");
    }
    ev.write().expect("write evidence");
    println!(
        "{id}: {} cases, {} fired, {} known-finding cases, {} new violations, {:.1}s",
        ev.evaluations,
        ev.distinct.len(),
        known_hits.values().map(|v| v.0).sum::<u64>(),
        new_violations.len(),
        ev.wall_s()
    );
    drop(scratch);
    std::process::exit(if new_violations.is_empty() { 0 } else { 1 })
}

/// For C04: is the damage confined to exempt manifest bytes, and which pack (file#span) holds it.
fn c04_attribution(img: &ImageInfo, fault: &Fault) -> (bool, String) {
    let (fi, lo, hi) = match fault {
        Fault::Flip { file, pos, .. } | Fault::FlipFix { file, pos, .. } => (*file, *pos, *pos + 1),
        Fault::Zero { file, pos, len } | Fault::Overwrite { file, pos, len, .. } => {
            (*file, *pos, *pos + *len)
        }
        Fault::Multi(v) if !v.is_empty() => return c04_attribution(img, &v[0]),
        _ => return (false, String::new()),
    };
    let mut pack = String::new();
    let mut exempt = false;
    for (si, s) in img.spans[fi].iter().enumerate() {
        if s.kind == b'C' {
            continue;
        }
        if s.contains(lo) {
            pack = format!("{}#{}", img.files[fi], si);
            exempt = (lo..hi).all(|p| s.is_exempt(p));
            // a container may store the same pack twice (tools::concat accepts it); the reader keeps
            // the last copy, the earlier one is dead data no check looks at: damage there is
            // generated and counted, either answer is accepted
            if img.spans[fi].iter().skip(si + 1).any(|later| later.kind != b'C' && later.uuid == s.uuid) {
                exempt = true;
            }
        }
    }
    (exempt, pack)
}

pub fn replay_main(args: &Args, mode: Mode, file: &str) -> ! {
    let v: Value = serde_json::from_str(&std::fs::read_to_string(file).unwrap_or_else(|e| {
        simcore::harness_error(&format!("cannot read replay file: {e}"))
    }))
    .unwrap_or_else(|e| simcore::harness_error(&format!("replay file does not parse: {e}")));
    let image = v["image"].as_str().unwrap().to_string();
    let fault = v["fault"].as_str().unwrap().to_string();
    if image == "special-file" {
        // `fault` is the path of the pseudo file / device; both build profiles
        let mut bad = vec![];
        for (profile, exe) in [("release", std::env::current_exe().unwrap().to_string_lossy().to_string()), ("debug", debug_bin())] {
            if !Path::new(&exe).exists() {
                continue;
            }
            let outcome = run_special_child(&exe, &fault);
            println!("replay special file {fault} ({profile}): {outcome}");
            if outcome != "done" {
                bad.push(format!("{profile}: {outcome}"));
            }
        }
        if bad.is_empty() {
            println!("no violation on replay");
            std::process::exit(0)
        }
        println!("VIOLATION property={} replay={file}", mode.id());
        for b in bad {
            println!("  {b}");
        }
        std::process::exit(1)
    }
    let seed = v["seed"].as_u64().unwrap();
    let tier = Tier::parse(v["tier"].as_str().unwrap()).unwrap();
    let hooks = FHooks::install();
    let scratch = simcore::Scratch::new(&format!("{}-replay", mode.id()));
    if image.starts_with("big-manifest-n") {
        match crate::bigmanifest::replay(&image, &fault, seed, &scratch.sub("bigmanifest")) {
            None => {
                println!("no violation on replay");
                std::process::exit(0)
            }
            Some(verdict) => {
                println!("VIOLATION property={} replay={file}", mode.id());
                println!("  {image} {fault}: the manifest's check answers {verdict}");
                println!("  recorded signature: {}", v["signature"]);
                std::process::exit(1)
            }
        }
    }
    let a2 = Args {
        cmd: args.cmd.clone(),
        tier,
        seed,
        replay: None,
        worker: None,
        rest: vec![],
    };
    std::env::set_var("VERIF_ONLY_IMAGE", &image);
    if fault == "none" {
        // fault-free violation: the image as created does not read back as its model says.
        // `build_images` prints the mismatch record and leaves the image out.
        let imgs = build_images(&hooks, &a2, &scratch);
        if imgs.iter().any(|i| i.name == image) {
            println!("no violation on replay (image {image} reads back as its model says)");
            std::process::exit(0)
        }
        println!("VIOLATION property={} replay={file}", mode.id());
        println!("  recorded signature: {}", v["signature"]);
        std::process::exit(1)
    }
    let imgs = build_images(&hooks, &a2, &scratch);
    let img = imgs
        .iter()
        .find(|i| i.name == image)
        .unwrap_or_else(|| simcore::harness_error("replay: image not in grid (or it does not read back fault-free any more)"));
    let fault_d = Fault::decode(&fault)
        .unwrap_or_else(|| simcore::harness_error("replay: fault does not parse"));
    let dir = scratch.sub("replay");
    std::fs::create_dir_all(dir.join("pristine")).unwrap();
    write_files(&dir.join("pristine"), &img.files, &img.bytes);
    std::fs::write(
        dir.join("image.json"),
        json!({"files": img.files, "spec": spec_to_json(&img.spec)}).to_string(),
    )
    .unwrap();
    std::fs::write(dir.join("faults.txt"), &fault).unwrap();
    let dir_s = dir.to_str().unwrap().to_string();
    let make_args = |a: u64, b: u64| -> Vec<String> {
        vec![
            "child-damage".into(),
            mode.id().into(),
            dir_s.clone(),
            a.to_string(),
            b.to_string(),
        ]
    };
    let bins: Vec<(&str, Option<String>)> = if mode == Mode::C06 {
        vec![("release", None), ("debug", Some(debug_bin()))]
    } else {
        vec![("release", None)]
    };
    let mut found: Vec<String> = vec![];
    for (profile, bin) in bins {
        let outcomes = match &bin {
            None => proc::run_batch(&make_args, 0, 1, Duration::from_secs(20)),
            Some(b) => proc::run_batch_with(Path::new(b), &make_args, 0, 1, Duration::from_secs(20)),
        };
        for (i, outcome) in outcomes {
            println!("replay {image} {fault} [{profile}]: {outcome:?}");
            let mut rec = case_record(img, 0, i, &fault_d, outcome, profile);
            merge_timing_dependent(&mut rec);
            let mut exempt = false;
            if mode == Mode::C04 {
                let (ex, damaged_pack) = c04_attribution(img, &fault_d);
                exempt = ex;
                rec["damaged_pack"] = json!(damaged_pack);
            }
            if let Some(sig) = judge_case(mode, profile, &rec, exempt) {
                found.push(sig);
            }
        }
    }
    println!("recorded signature: {}", v["signature"]);
    if found.is_empty() {
        println!("no violation on replay");
        std::process::exit(0)
    }
    println!("VIOLATION property={} replay={file}", mode.id());
    for sig in &found {
        println!("  signature: {sig}");
    }
    if !found.iter().any(|s| Some(s.as_str()) == v["signature"].as_str()) {
        println!("  (a violation, but not the recorded signature)");
    }
    std::process::exit(1)
}

#[allow(dead_code)]
fn _unused(_: Leaf) {}
