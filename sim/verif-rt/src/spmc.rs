//! Stand-in for the `spmc` crate under the shuttle flavour: a single-producer channel whose
//! receiver can be cloned; every item goes to exactly one receiver. Built from the modelled
//! mpsc channel and mutex so that every hand-off is a scheduling point.

use crate::sync::{mpsc, Arc, Mutex};

pub use std::sync::mpsc::{RecvError, SendError};

pub struct Sender<T> {
    inner: mpsc::Sender<T>,
}

pub struct Receiver<T> {
    inner: Arc<Mutex<mpsc::Receiver<T>>>,
}

pub fn channel<T: Send>() -> (Sender<T>, Receiver<T>) {
    let (tx, rx) = mpsc::channel();
    (
        Sender { inner: tx },
        Receiver {
            inner: Arc::new(Mutex::new(rx)),
        },
    )
}

impl<T: Send> Sender<T> {
    pub fn send(&mut self, t: T) -> Result<(), SendError<T>> {
        self.inner.send(t)
    }
}

impl<T: Send> Receiver<T> {
    pub fn recv(&self) -> Result<T, RecvError> {
        let rx = self.inner.lock().unwrap();
        rx.recv()
    }
}

impl<T> Clone for Receiver<T> {
    fn clone(&self) -> Self {
        Self {
            inner: Arc::clone(&self.inner),
        }
    }
}
