//! Output I/O fault points. The call sites in /repo wrap the real operation in a closure, so the
//! decision logic (fail, short write, die before / in the middle of / after) stays here.

use std::io;

#[derive(Clone, Copy, Debug, PartialEq, Eq, Hash)]
pub enum IoKind {
    Create,
    Write,
    Flush,
    Seek,
    Read,
    Persist,
    /// reached right after a successful persist (rename), before returning to the caller
    Persisted,
}

impl IoKind {
    pub fn as_str(&self) -> &'static str {
        match self {
            IoKind::Create => "create",
            IoKind::Write => "write",
            IoKind::Flush => "flush",
            IoKind::Seek => "seek",
            IoKind::Read => "read",
            IoKind::Persist => "persist",
            IoKind::Persisted => "persisted",
        }
    }
}

#[derive(Debug)]
pub struct IoOp<'a> {
    pub kind: IoKind,
    /// final (destination) path of the output file the operation belongs to
    pub file: &'a str,
    /// bytes involved (write / read), 0 otherwise
    pub len: usize,
}

#[derive(Clone, Copy, Debug, PartialEq, Eq)]
pub enum IoDecision {
    Proceed,
    /// return this OS error without performing the operation
    Fail(i32),
    /// return `ErrorKind::Interrupted` without performing the operation (benign: callers retry)
    Interrupted,
    /// write / read: perform on the first `n` bytes only and return `Ok(n)` (benign)
    Short(usize),
    /// write: really write `n` bytes, then return the OS error
    PartialThenFail(usize, i32),
    /// terminate the process before the operation
    DieBefore,
    /// perform the operation (write: only its first `n` bytes), then terminate the process
    DieAfter(usize),
}

pub const DIE_EXIT_CODE: i32 = 86;

pub fn die() -> ! {
    unsafe { libc::_exit(DIE_EXIT_CODE) }
}

#[inline]
pub fn active() -> bool {
    crate::hooks().is_some()
}

#[inline]
fn decide(kind: IoKind, file: &str, len: usize) -> IoDecision {
    match crate::hooks() {
        None => IoDecision::Proceed,
        Some(h) => h.io(&IoOp { kind, file, len }),
    }
}

fn write_fully(real: &mut dyn FnMut(&[u8]) -> io::Result<usize>, mut buf: &[u8]) -> io::Result<()> {
    while !buf.is_empty() {
        match real(buf) {
            Ok(0) => return Err(io::ErrorKind::WriteZero.into()),
            Ok(n) => buf = &buf[n..],
            Err(e) if e.kind() == io::ErrorKind::Interrupted => {}
            Err(e) => return Err(e),
        }
    }
    Ok(())
}

/// Fault point for `Write::write`. `None` means: carry on with the real operation.
pub fn write(
    file: &str,
    buf: &[u8],
    real: &mut dyn FnMut(&[u8]) -> io::Result<usize>,
) -> Option<io::Result<usize>> {
    match decide(IoKind::Write, file, buf.len()) {
        IoDecision::Proceed => None,
        IoDecision::Fail(e) => Some(Err(io::Error::from_raw_os_error(e))),
        IoDecision::Interrupted => Some(Err(io::ErrorKind::Interrupted.into())),
        IoDecision::Short(n) => {
            let n = n.clamp(1, buf.len().max(1)).min(buf.len());
            Some(real(&buf[..n]))
        }
        IoDecision::PartialThenFail(n, e) => {
            let n = n.min(buf.len());
            let _ = write_fully(real, &buf[..n]);
            Some(Err(io::Error::from_raw_os_error(e)))
        }
        IoDecision::DieBefore => die(),
        IoDecision::DieAfter(n) => {
            let n = n.min(buf.len());
            let _ = write_fully(real, &buf[..n]);
            die()
        }
    }
}

/// Fault point for `Read::read` on an output file (creators read back what they wrote).
pub fn read(
    file: &str,
    buf: &mut [u8],
    real: &mut dyn FnMut(&mut [u8]) -> io::Result<usize>,
) -> Option<io::Result<usize>> {
    match decide(IoKind::Read, file, buf.len()) {
        IoDecision::Proceed => None,
        IoDecision::Fail(e) | IoDecision::PartialThenFail(_, e) => {
            Some(Err(io::Error::from_raw_os_error(e)))
        }
        IoDecision::Interrupted => Some(Err(io::ErrorKind::Interrupted.into())),
        IoDecision::Short(n) => {
            let n = n.clamp(1, buf.len().max(1)).min(buf.len());
            Some(real(&mut buf[..n]))
        }
        IoDecision::DieBefore => die(),
        IoDecision::DieAfter(_) => {
            let _ = real(buf);
            die()
        }
    }
}

/// Fault point for an operation without payload (create, flush, seek, persist).
pub fn simple<T>(
    kind: IoKind,
    file: &str,
    real: &mut dyn FnMut() -> io::Result<T>,
) -> Option<io::Result<T>> {
    match decide(kind, file, 0) {
        IoDecision::Proceed | IoDecision::Short(_) => None,
        IoDecision::Fail(e) | IoDecision::PartialThenFail(_, e) => {
            Some(Err(io::Error::from_raw_os_error(e)))
        }
        IoDecision::Interrupted => None,
        IoDecision::DieBefore => die(),
        IoDecision::DieAfter(_) => {
            let _ = real();
            die()
        }
    }
}

/// Fault point placed before an operation that cannot be wrapped in a closure (it consumes its
/// receiver). Only "fail" and "die before" are meaningful here.
pub fn before(kind: IoKind, file: &str) -> io::Result<()> {
    match decide(kind, file, 0) {
        IoDecision::Fail(e) | IoDecision::PartialThenFail(_, e) => {
            Err(io::Error::from_raw_os_error(e))
        }
        IoDecision::DieBefore | IoDecision::DieAfter(_) => die(),
        _ => Ok(()),
    }
}

/// Observation / death point placed right after an operation completed (e.g. between the
/// rename of a temporary file and the return to the caller). Never fails.
pub fn after(kind: IoKind, file: &str) {
    match decide(kind, file, 0) {
        IoDecision::DieBefore | IoDecision::DieAfter(_) => die(),
        _ => {}
    }
}
