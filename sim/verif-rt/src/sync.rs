//! `std::sync` look-alikes over shuttle's models, with one addition: releasing a lock is a
//! scheduling point (shuttle itself never switches at unlock, which hides "publish before
//! write" style bugs).

pub use std::sync::{Arc, LockResult, OnceLock, PoisonError, TryLockError, TryLockResult, Weak};

use std::fmt;
use std::ops::{Deref, DerefMut};

fn map_try<G, W>(r: TryLockResult<G>, wrap: impl Fn(G) -> W) -> TryLockResult<W> {
    match r {
        Ok(g) => Ok(wrap(g)),
        Err(TryLockError::WouldBlock) => Err(TryLockError::WouldBlock),
        Err(TryLockError::Poisoned(p)) => Err(TryLockError::Poisoned(PoisonError::new(wrap(p.into_inner())))),
    }
}

fn map_lock<G, W>(r: LockResult<G>, wrap: impl Fn(G) -> W) -> LockResult<W> {
    match r {
        Ok(g) => Ok(wrap(g)),
        Err(p) => Err(PoisonError::new(wrap(p.into_inner()))),
    }
}

// ---------------------------------------------------------------- Mutex

pub struct Mutex<T: ?Sized>(shuttle::sync::Mutex<T>);

pub struct MutexGuard<'a, T: ?Sized> {
    inner: Option<shuttle::sync::MutexGuard<'a, T>>,
}

impl<T> Mutex<T> {
    pub fn new(t: T) -> Self {
        Self(shuttle::sync::Mutex::new(t))
    }
    pub fn into_inner(self) -> LockResult<T> {
        self.0.into_inner()
    }
}

impl<T: ?Sized> Mutex<T> {
    pub fn lock(&self) -> LockResult<MutexGuard<'_, T>> {
        map_lock(self.0.lock(), |g| MutexGuard { inner: Some(g) })
    }
    pub fn try_lock(&self) -> TryLockResult<MutexGuard<'_, T>> {
        map_try(self.0.try_lock(), |g| MutexGuard { inner: Some(g) })
    }
    pub fn get_mut(&mut self) -> LockResult<&mut T> {
        self.0.get_mut()
    }
    pub fn is_poisoned(&self) -> bool {
        false
    }
}

impl<T> From<T> for Mutex<T> {
    fn from(t: T) -> Self {
        Self::new(t)
    }
}

impl<T: Default> Default for Mutex<T> {
    fn default() -> Self {
        Self::new(Default::default())
    }
}

impl<T: ?Sized + fmt::Debug> fmt::Debug for Mutex<T> {
    fn fmt(&self, f: &mut fmt::Formatter<'_>) -> fmt::Result {
        self.0.fmt(f)
    }
}

impl<T: ?Sized> Deref for MutexGuard<'_, T> {
    type Target = T;
    fn deref(&self) -> &T {
        self.inner.as_ref().unwrap()
    }
}

impl<T: ?Sized> DerefMut for MutexGuard<'_, T> {
    fn deref_mut(&mut self) -> &mut T {
        self.inner.as_mut().unwrap()
    }
}

impl<T: ?Sized> Drop for MutexGuard<'_, T> {
    fn drop(&mut self) {
        if let Some(g) = self.inner.take() {
            drop(g);
            crate::switch();
        }
    }
}

// ---------------------------------------------------------------- Condvar

#[derive(Default)]
pub struct Condvar(shuttle::sync::Condvar);

impl fmt::Debug for Condvar {
    fn fmt(&self, f: &mut fmt::Formatter<'_>) -> fmt::Result {
        f.write_str("Condvar")
    }
}

impl Condvar {
    pub fn new() -> Self {
        Self(shuttle::sync::Condvar::new())
    }

    pub fn wait<'a, T>(&self, mut guard: MutexGuard<'a, T>) -> LockResult<MutexGuard<'a, T>> {
        let g = guard.inner.take().unwrap();
        map_lock(self.0.wait(g), |g| MutexGuard { inner: Some(g) })
    }

    pub fn wait_while<'a, T, F>(
        &self,
        mut guard: MutexGuard<'a, T>,
        condition: F,
    ) -> LockResult<MutexGuard<'a, T>>
    where
        F: FnMut(&mut T) -> bool,
    {
        let g = guard.inner.take().unwrap();
        map_lock(self.0.wait_while(g, condition), |g| MutexGuard {
            inner: Some(g),
        })
    }

    /// Simulated time: the simulator decides whether the timeout elapses before a notification
    /// arrives (relative speeds are arbitrary); otherwise this is `wait`.
    pub fn wait_timeout<'a, T>(
        &self,
        guard: MutexGuard<'a, T>,
        _dur: std::time::Duration,
    ) -> LockResult<(MutexGuard<'a, T>, WaitTimeoutResult)> {
        if crate::timeout_fires("condvar_wait_timeout") {
            return Ok((guard, WaitTimeoutResult(true)));
        }
        match self.wait(guard) {
            Ok(g) => Ok((g, WaitTimeoutResult(false))),
            Err(p) => Err(PoisonError::new((p.into_inner(), WaitTimeoutResult(false)))),
        }
    }

    pub fn wait_timeout_while<'a, T, F>(
        &self,
        mut guard: MutexGuard<'a, T>,
        _dur: std::time::Duration,
        mut condition: F,
    ) -> LockResult<(MutexGuard<'a, T>, WaitTimeoutResult)>
    where
        F: FnMut(&mut T) -> bool,
    {
        loop {
            if !condition(&mut *guard) {
                return Ok((guard, WaitTimeoutResult(false)));
            }
            if crate::timeout_fires("condvar_wait_timeout_while") {
                return Ok((guard, WaitTimeoutResult(true)));
            }
            guard = match self.wait(guard) {
                Ok(g) => g,
                Err(p) => return Err(PoisonError::new((p.into_inner(), WaitTimeoutResult(false)))),
            };
        }
    }

    pub fn notify_one(&self) {
        self.0.notify_one()
    }

    pub fn notify_all(&self) {
        self.0.notify_all()
    }
}

/// Result of a timed wait (as `std::sync::WaitTimeoutResult`).
#[derive(Debug, PartialEq, Eq, Copy, Clone)]
pub struct WaitTimeoutResult(bool);

impl WaitTimeoutResult {
    pub fn timed_out(&self) -> bool {
        self.0
    }
}

// ---------------------------------------------------------------- RwLock

pub struct RwLock<T: ?Sized>(shuttle::sync::RwLock<T>);

pub struct RwLockReadGuard<'a, T: ?Sized> {
    inner: Option<shuttle::sync::RwLockReadGuard<'a, T>>,
}

pub struct RwLockWriteGuard<'a, T: ?Sized> {
    inner: Option<shuttle::sync::RwLockWriteGuard<'a, T>>,
}

impl<T> RwLock<T> {
    pub fn new(t: T) -> Self {
        Self(shuttle::sync::RwLock::new(t))
    }
    pub fn into_inner(self) -> LockResult<T> {
        self.0.into_inner()
    }
}

impl<T: ?Sized> RwLock<T> {
    pub fn read(&self) -> LockResult<RwLockReadGuard<'_, T>> {
        map_lock(self.0.read(), |g| RwLockReadGuard { inner: Some(g) })
    }
    pub fn write(&self) -> LockResult<RwLockWriteGuard<'_, T>> {
        map_lock(self.0.write(), |g| RwLockWriteGuard { inner: Some(g) })
    }
    pub fn try_read(&self) -> TryLockResult<RwLockReadGuard<'_, T>> {
        map_try(self.0.try_read(), |g| RwLockReadGuard { inner: Some(g) })
    }
    pub fn try_write(&self) -> TryLockResult<RwLockWriteGuard<'_, T>> {
        map_try(self.0.try_write(), |g| RwLockWriteGuard { inner: Some(g) })
    }
    pub fn get_mut(&mut self) -> LockResult<&mut T> {
        self.0.get_mut()
    }
}

impl<T: ?Sized + fmt::Debug> fmt::Debug for RwLock<T> {
    fn fmt(&self, f: &mut fmt::Formatter<'_>) -> fmt::Result {
        self.0.fmt(f)
    }
}

impl<T: ?Sized> Deref for RwLockReadGuard<'_, T> {
    type Target = T;
    fn deref(&self) -> &T {
        self.inner.as_ref().unwrap()
    }
}

impl<T: ?Sized> Drop for RwLockReadGuard<'_, T> {
    fn drop(&mut self) {
        if let Some(g) = self.inner.take() {
            drop(g);
            crate::switch();
        }
    }
}

impl<T: ?Sized> Deref for RwLockWriteGuard<'_, T> {
    type Target = T;
    fn deref(&self) -> &T {
        self.inner.as_ref().unwrap()
    }
}

impl<T: ?Sized> DerefMut for RwLockWriteGuard<'_, T> {
    fn deref_mut(&mut self) -> &mut T {
        self.inner.as_mut().unwrap()
    }
}

impl<T: ?Sized> Drop for RwLockWriteGuard<'_, T> {
    fn drop(&mut self) {
        if let Some(g) = self.inner.take() {
            drop(g);
            crate::switch();
        }
    }
}

// ---------------------------------------------------------------- mpsc

pub mod mpsc {
    //! shuttle's channel model, with timed receives that can actually time out: shuttle itself
    //! treats `recv_timeout` as `recv`. Here the simulator decides, whenever nothing has arrived
    //! yet, whether the timeout elapses first.
    pub use shuttle::sync::mpsc::{RecvError, RecvTimeoutError, SendError, Sender, SyncSender, TryRecvError, TrySendError};

    pub struct Receiver<T>(shuttle::sync::mpsc::Receiver<T>);

    pub fn channel<T>() -> (Sender<T>, Receiver<T>) {
        let (s, r) = shuttle::sync::mpsc::channel();
        (s, Receiver(r))
    }

    pub fn sync_channel<T>(bound: usize) -> (SyncSender<T>, Receiver<T>) {
        let (s, r) = shuttle::sync::mpsc::sync_channel(bound);
        (s, Receiver(r))
    }

    impl<T> std::fmt::Debug for Receiver<T> {
        fn fmt(&self, f: &mut std::fmt::Formatter<'_>) -> std::fmt::Result {
            f.write_str("Receiver")
        }
    }

    impl<T> Receiver<T> {
        pub fn recv(&self) -> Result<T, RecvError> {
            self.0.recv()
        }
        pub fn try_recv(&self) -> Result<T, TryRecvError> {
            self.0.try_recv()
        }
        pub fn recv_timeout(&self, _timeout: std::time::Duration) -> Result<T, RecvTimeoutError> {
            match self.0.try_recv() {
                Ok(v) => Ok(v),
                Err(TryRecvError::Disconnected) => Err(RecvTimeoutError::Disconnected),
                Err(TryRecvError::Empty) => {
                    if crate::timeout_fires("mpsc_recv_timeout") {
                        crate::switch();
                        Err(RecvTimeoutError::Timeout)
                    } else {
                        self.0.recv().map_err(|_| RecvTimeoutError::Disconnected)
                    }
                }
            }
        }
        pub fn iter(&self) -> Iter<'_, T> {
            Iter { rx: self }
        }
        pub fn try_iter(&self) -> TryIter<'_, T> {
            TryIter { rx: self }
        }
    }

    pub struct Iter<'a, T: 'a> {
        rx: &'a Receiver<T>,
    }
    pub struct TryIter<'a, T: 'a> {
        rx: &'a Receiver<T>,
    }
    pub struct IntoIter<T> {
        rx: Receiver<T>,
    }
    impl<T> Iterator for Iter<'_, T> {
        type Item = T;
        fn next(&mut self) -> Option<T> {
            self.rx.recv().ok()
        }
    }
    impl<T> Iterator for TryIter<'_, T> {
        type Item = T;
        fn next(&mut self) -> Option<T> {
            self.rx.try_recv().ok()
        }
    }
    impl<T> Iterator for IntoIter<T> {
        type Item = T;
        fn next(&mut self) -> Option<T> {
            self.rx.recv().ok()
        }
    }
    impl<'a, T> IntoIterator for &'a Receiver<T> {
        type Item = T;
        type IntoIter = Iter<'a, T>;
        fn into_iter(self) -> Iter<'a, T> {
            self.iter()
        }
    }
    impl<T> IntoIterator for Receiver<T> {
        type Item = T;
        type IntoIter = IntoIter<T>;
        fn into_iter(self) -> IntoIter<T> {
            IntoIter { rx: self }
        }
    }
}
