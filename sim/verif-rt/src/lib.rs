//! Runtime behind the `cfg(jubako_verif)` hooks in /repo.
//!
//! /repo only contains thin call sites (`crate::verif::point(..)`, `crate::verif::knob(..)`,
//! `crate::verif::io::write(..)`, import switches to `crate::verif::sync::*`); everything they do
//! lives here so that the simulator can evolve without touching /repo.
//!
//! With no `Hooks` installed every call site is a no-op that returns the shipped behaviour.

use std::sync::{Arc, RwLock};

pub mod io;

#[cfg(feature = "shuttle")]
pub mod pool;
#[cfg(feature = "shuttle")]
pub mod spmc;
#[cfg(feature = "shuttle")]
pub mod sync;
#[cfg(feature = "shuttle")]
pub mod thread;

/// What the simulator can observe and decide. One instance is installed process-wide.
pub trait Hooks: Send + Sync {
    /// A named point in jubako's code, with a value (a length, an index ...).
    fn point(&self, _site: &'static str, _a: u64, _b: u64) {}
    /// A tunable constant. `default` is the shipped value.
    fn knob(&self, _name: &'static str, default: u64) -> u64 {
        default
    }
    /// A read that may legally return fewer bytes than asked ("buggify"): how many to serve, 1..=n.
    fn short_read(&self, n: usize) -> usize {
        n
    }
    /// An operating-system service is about to be asked for something it may refuse (a memory
    /// mapping, ...): does it fail this time? ("failing system calls" as an environment fault)
    fn fault(&self, _site: &'static str) -> bool {
        false
    }
    /// A timed wait (`recv_timeout`, `wait_timeout`, ...) found nothing to return yet: does the
    /// timeout elapse before anything arrives? The simulator has no wall clock - relative speeds
    /// are arbitrary, so any timed wait may time out whenever the simulator says so.
    fn timeout_fires(&self, _site: &'static str) -> bool {
        false
    }
    /// An output I/O operation is about to happen.
    fn io(&self, _op: &io::IoOp) -> io::IoDecision {
        io::IoDecision::Proceed
    }
}

static HOOKS: RwLock<Option<Arc<dyn Hooks>>> = RwLock::new(None);

pub fn install(h: Arc<dyn Hooks>) {
    *HOOKS.write().unwrap() = Some(h);
}

pub fn uninstall() {
    *HOOKS.write().unwrap() = None;
}

#[inline]
pub(crate) fn hooks() -> Option<Arc<dyn Hooks>> {
    HOOKS.read().unwrap().clone()
}

/// Tunable constant: returns `default` unless a simulator overrides it.
#[inline]
pub fn knob(name: &'static str, default: usize) -> usize {
    match hooks() {
        None => default,
        Some(h) => h.knob(name, default as u64) as usize,
    }
}

/// Cooperative fault point for `Read::read` implementations inside jubako: the simulator may
/// shorten a read (never to zero), which the `Read` contract allows at any time.
#[inline]
pub fn short_read(n: usize) -> usize {
    if n <= 1 {
        return n;
    }
    match hooks() {
        None => n,
        Some(h) => h.short_read(n).clamp(1, n),
    }
}

/// Environment fault point: whether the system call at `site` is made to fail.
#[inline]
pub fn fault(site: &'static str) -> bool {
    match hooks() {
        None => false,
        Some(h) => h.fault(site),
    }
}

/// Simulated time: whether a timed wait that has nothing to return times out now.
#[inline]
pub fn timeout_fires(site: &'static str) -> bool {
    match hooks() {
        None => false,
        Some(h) => h.timeout_fires(site),
    }
}

/// Observation point; under the shuttle flavour it is also a scheduling point.
#[inline]
pub fn point(site: &'static str, a: u64, b: u64) {
    if let Some(h) = hooks() {
        h.point(site, a, b);
    }
    #[cfg(feature = "shuttle")]
    switch();
}

/// Pure observation (never a scheduling point; safe while holding a lock).
#[inline]
pub fn probe(site: &'static str, a: u64, b: u64) {
    if let Some(h) = hooks() {
        h.point(site, a, b);
    }
}

#[cfg(feature = "shuttle")]
#[inline]
pub fn switch() {
    if shuttle::current::get_current_task().is_some() && !std::thread::panicking() {
        shuttle::thread::sleep(std::time::Duration::ZERO);
    }
}

/// Deterministically ordered replacement for `HashMap` where jubako iterates over a map
/// (iteration order of std's HashMap is process-random, which would break replay).
#[derive(Debug, Clone, Default)]
pub struct DetMap<K: Ord, V>(std::collections::BTreeMap<K, V>);

impl<K: Ord, V> DetMap<K, V> {
    pub fn new() -> Self {
        Self(Default::default())
    }
    pub fn with_capacity(_n: usize) -> Self {
        Self(Default::default())
    }
    pub fn insert(&mut self, k: K, v: V) -> Option<V> {
        self.0.insert(k, v)
    }
    pub fn get(&self, k: &K) -> Option<&V> {
        self.0.get(k)
    }
    pub fn len(&self) -> usize {
        self.0.len()
    }
    pub fn is_empty(&self) -> bool {
        self.0.is_empty()
    }
    pub fn values(&self) -> impl Iterator<Item = &V> {
        self.0.values()
    }
    pub fn iter(&self) -> impl Iterator<Item = (&K, &V)> {
        self.0.iter()
    }
}

impl<K: Ord, V> std::ops::Index<&K> for DetMap<K, V> {
    type Output = V;
    fn index(&self, k: &K) -> &V {
        &self.0[k]
    }
}
