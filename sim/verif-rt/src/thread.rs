//! `std::thread` look-alike over shuttle's thread model.
pub use shuttle::thread::{current, sleep, spawn, yield_now, Builder, JoinHandle};
