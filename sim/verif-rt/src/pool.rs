//! Stand-in for the 8-thread rayon decompression pool under the shuttle flavour: one modelled
//! thread per job, admitted through a counting semaphore of `knob("decomp_pool_size")` slots,
//! so "more decoding clusters than pool threads" is reachable with tiny containers.

use crate::sync::{Arc, Condvar, Mutex};

struct Sem {
    used: Mutex<usize>,
    cv: Condvar,
    slots: usize,
}

static CURRENT: std::sync::Mutex<Option<Arc<Sem>>> = std::sync::Mutex::new(None);

/// Must be called at the start of every simulated execution (modelled primitives do not
/// survive an execution).
pub fn reset() {
    let slots = crate::knob("decomp_pool_size", 8).max(1);
    *CURRENT.lock().unwrap() = Some(Arc::new(Sem {
        used: Mutex::new(0),
        cv: Condvar::new(),
        slots,
    }));
}

pub fn clear() {
    *CURRENT.lock().unwrap() = None;
}

pub fn spawn<F: FnOnce() + Send + 'static>(job: F) {
    let sem = CURRENT
        .lock()
        .unwrap()
        .clone()
        .expect("verif_rt::pool::reset() not called in this execution");
    crate::thread::Builder::new()
        .name("DecompJob".to_string())
        .spawn(move || {
            {
                let guard = sem.used.lock().unwrap();
                let mut guard = sem.cv.wait_while(guard, |u| *u >= sem.slots).unwrap();
                if *guard + 1 == sem.slots {
                    crate::probe("pool_saturated", sem.slots as u64, 0);
                }
                *guard += 1;
            }
            job();
            {
                let mut guard = sem.used.lock().unwrap();
                *guard -= 1;
                sem.cv.notify_one();
            }
        })
        .expect("spawn");
}
