fn main() {
    println!("cargo:rustc-cfg=jubako_verif");
    if std::env::var_os("CARGO_FEATURE_VERIF_SHUTTLE").is_some() {
        println!("cargo:rustc-cfg=jubako_verif_shuttle");
    }
    println!("cargo:rerun-if-changed=build.rs");
}
