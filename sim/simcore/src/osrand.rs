//! Seeded replacement for OS randomness as seen through the `getrandom` crate (custom backend,
//! enabled by `--cfg getrandom_backend="custom"` in .cargo/config.toml). jubako draws its pack
//! uuids from it (`Uuid::new_v4()`), so every byte of a produced image is a function of the seed.

use crate::prng::Rng;
use std::sync::Mutex;

static STATE: Mutex<Option<Rng>> = Mutex::new(None);
static DRAWS: std::sync::atomic::AtomicU64 = std::sync::atomic::AtomicU64::new(0);

/// Restart the OS-randomness stream. Call before every creation whose bytes must be reproducible.
pub fn reseed(seed: u64) {
    *STATE.lock().unwrap() = Some(Rng::derive(seed, "uuid", 0));
}

pub fn draws() -> u64 {
    DRAWS.load(std::sync::atomic::Ordering::Relaxed)
}

#[no_mangle]
unsafe extern "Rust" fn __getrandom_v03_custom(
    dest: *mut u8,
    len: usize,
) -> Result<(), getrandom::Error> {
    let mut guard = STATE.lock().unwrap();
    let rng = guard.get_or_insert_with(|| Rng::derive(0, "uuid", 0));
    let buf = std::slice::from_raw_parts_mut(dest, len);
    rng.fill(buf);
    DRAWS.fetch_add(1, std::sync::atomic::Ordering::Relaxed);
    Ok(())
}
