//! Logical containers: seeded workload generation, the reference model, and the builder that
//! drives jubako's creators to produce the files.

use crate::prng::Rng;
use jubako as jbk;
use jubako::creator::{self, schema, ConcatMode, EntryStoreTrait, InputFile};
use std::collections::HashMap;
use std::io::{Read, Seek, SeekFrom, Write};
use std::path::{Path, PathBuf};
use std::sync::Arc;

pub const VENDOR: [u8; 4] = [0x76, 0x72, 0x66, 0x00];

#[derive(Clone, Copy, Debug, PartialEq, Eq, Hash)]
pub enum Comp {
    None,
    Zstd(i32),
    Lz4(u32),
    Lzma(u32),
}

impl Comp {
    pub fn to_jbk(self) -> creator::Compression {
        match self {
            Comp::None => creator::Compression::None,
            Comp::Zstd(l) => creator::Compression::Zstd(deranged::RangedI32::new(l).unwrap()),
            Comp::Lz4(l) => creator::Compression::Lz4(deranged::RangedU32::new(l).unwrap()),
            Comp::Lzma(l) => creator::Compression::Lzma(deranged::RangedU32::new(l).unwrap()),
        }
    }
    pub fn name(self) -> String {
        match self {
            Comp::None => "none".into(),
            Comp::Zstd(l) => format!("zstd{l}"),
            Comp::Lz4(l) => format!("lz4-{l}"),
            Comp::Lzma(l) => format!("lzma{l}"),
        }
    }
    pub const ALL_DEFAULT: [Comp; 4] = [Comp::None, Comp::Zstd(5), Comp::Lz4(3), Comp::Lzma(6)];
}

#[derive(Clone, Copy, Debug, PartialEq, Eq, Hash)]
pub enum Hint {
    Yes,
    No,
    Detect,
}

impl Hint {
    pub fn to_jbk(self) -> creator::CompHint {
        match self {
            Hint::Yes => creator::CompHint::Yes,
            Hint::No => creator::CompHint::No,
            Hint::Detect => creator::CompHint::Detect,
        }
    }
}

#[derive(Clone, Copy, Debug, PartialEq, Eq, Hash)]
pub enum SrcKind {
    /// `std::io::Cursor<Vec<u8>>`
    Cursor,
    /// `InputFile` over a whole scratch file
    File,
    /// `InputFile::new_range` over a sub-range of a larger scratch file
    FileRange,
    /// `HookedInput` over a perturbing `SimReader` (short reads, `Interrupted`)
    Sim,
    /// `InputFile` over a whole file from which the caller already read a few bytes (sniffing a
    /// magic number) before handing it over; only used with hints that do not depend on the
    /// stream position (No, Detect)
    FilePeeked,
    /// `InputFile::new_range(file, origin, None)`: from an offset to the end of the file
    FileRangeToEnd,
    /// `InputFile::new_range` over a `File::try_clone` of one archive file that holds every such
    /// content of the work (members of one opened archive: the clones share one open file
    /// description, so one file offset). All of them are built before the first insertion
    /// ([`prepare_shared_archive`]) and only stored raw (hint No, plain adder): then nothing but
    /// the writer's copy moves the shared offset.
    SharedArchive,
    /// `InputFile::open(path)`; straight afterwards the name is given to another file of the
    /// same size with other bytes (a scratch name that is reused): the open descriptor keeps the
    /// bytes that were handed over
    FileReplaced,
}

type ArchiveKey = (std::path::PathBuf, usize);
static SHARED_ARCHIVE: std::sync::Mutex<Option<HashMap<ArchiveKey, InputFile>>> = std::sync::Mutex::new(None);

/// Build the archive file of a work and one `InputFile` per `SrcKind::SharedArchive` content, all
/// before the creator sees the first of them; [`make_input`] hands them out.
pub fn prepare_shared_archive(contents: &[ContentSpec], scratch: &Path, aux_seed: u64) -> std::io::Result<()> {
    let mut guard = SHARED_ARCHIVE.lock().unwrap_or_else(|e| e.into_inner());
    let map = guard.get_or_insert_with(HashMap::new);
    map.retain(|(p, _), _| p != scratch);
    if !contents.iter().any(|c| c.src == SrcKind::SharedArchive) {
        return Ok(());
    }
    // one archive per destination pack: each pack creator has its own writer thread, and only
    // one thread may move a shared offset
    let mut packs: Vec<u16> = contents.iter().filter(|c| c.src == SrcKind::SharedArchive).map(|c| c.pack).collect();
    packs.sort();
    packs.dedup();
    for pack in packs {
        let p = scratch.join(format!("archive{pack}.bin"));
        let mut rng = Rng::derive(aux_seed, "shared-archive", pack as u64);
        let mut origins = vec![];
        {
            let mut f = std::fs::File::create(&p)?;
            let mut at = 0u64;
            for (idx, c) in contents.iter().enumerate() {
                if c.src != SrcKind::SharedArchive || c.pack != pack {
                    continue;
                }
                let pad = rng.range(0, 40) as usize;
                f.write_all(&vec![0xA0 | (idx as u8 & 0xF); pad])?;
                f.write_all(c.bytes.as_ref())?;
                origins.push((idx, at + pad as u64, c.bytes.len() as u64));
                at += (pad + c.bytes.len()) as u64;
            }
            f.write_all(&[0xDD; 33])?;
        }
        let archive = std::fs::File::open(&p)?;
        for (idx, origin, len) in origins {
            map.insert((scratch.to_path_buf(), idx), InputFile::new_range(archive.try_clone()?, origin, Some(len))?);
        }
    }
    Ok(())
}

#[derive(Clone, Copy, Debug, PartialEq, Eq, Hash)]
pub enum Packaging {
    /// manifest + directory + n content packs as loose files (low-level creators)
    Loose,
    /// loose files re-assembled with `tools::concat` in a seeded order
    Concat,
    /// `BasicCreator`, `ConcatMode::OneFile`
    BasicOne,
    /// `BasicCreator`, `ConcatMode::TwoFiles`
    BasicTwo,
    /// `BasicCreator`, `ConcatMode::NoConcat`
    BasicNoConcat,
}

impl Packaging {
    pub fn name(self) -> &'static str {
        match self {
            Packaging::Loose => "loose",
            Packaging::Concat => "concat",
            Packaging::BasicOne => "basic-one",
            Packaging::BasicTwo => "basic-two",
            Packaging::BasicNoConcat => "basic-noconcat",
        }
    }
    pub fn is_basic(self) -> bool {
        matches!(
            self,
            Packaging::BasicOne | Packaging::BasicTwo | Packaging::BasicNoConcat
        )
    }
}

#[derive(Clone, Copy, Debug, PartialEq, Eq, Hash)]
pub enum StoreKind {
    Plain,
    Indexed,
}

#[derive(Clone, Debug)]
pub struct ContentSpec {
    pub bytes: Arc<Vec<u8>>,
    pub hint: Hint,
    pub src: SrcKind,
    /// pack id (1..=n_packs)
    pub pack: u16,
}

#[derive(Clone, Debug)]
pub struct SchemaSpec {
    /// inline prefix length of the key array
    pub key_prefix: usize,
    pub store: StoreKind,
    pub variants: bool,
    /// pad keys with this many extra bytes (to push the directory pack over the mmap threshold)
    pub key_pad: usize,
}

#[derive(Clone, Debug)]
pub struct Logical {
    pub comp: Comp,
    pub packaging: Packaging,
    pub n_packs: u16,
    pub contents: Vec<ContentSpec>,
    pub schema: SchemaSpec,
    pub dedup: bool,
    /// seed for source perturbation and concat order
    pub aux_seed: u64,
    pub opts: LogicalOpts,
}

/// Rarely used variations of the packaging.
#[derive(Clone, Copy, Debug, Default)]
pub struct LogicalOpts {
    /// (loose / concat) record an empty location for every pack: packs can then only be found
    /// by uuid inside the file at hand, so this only makes sense with `Packaging::Concat`
    pub empty_locations: bool,
    /// (concat) store the first content pack twice in the container
    pub concat_dup: bool,
    /// (loose / concat) list the content packs in the manifest in a seeded order instead of by id
    pub shuffle_manifest: bool,
    /// (loose) where the content pack files live relative to the manifest: 0 next to it (bare file
    /// name recorded), 1 in a sub-directory ("sub/<name>"), 2 in a sibling directory
    /// ("../sib/<name>"), 3 next to it but recorded as "./<name>"
    pub pack_location_style: u8,
    /// (loose / concat) pack ids in 1..=n_packs for which NO pack exists (bit p-1): content pack
    /// ids are chosen freely by the application and need not be contiguous
    pub absent_ids: u32,
    /// (loose / concat) the directory pack is listed after the first content pack in the manifest
    /// instead of first
    pub dir_not_first: bool,
    /// (loose / concat) packs (bit p-1) whose recorded location is a URL with a scheme the default
    /// locator cannot follow ("https://..."): when such a pack is not inside the file at hand it
    /// is, for a reader, simply not available
    pub url_located: u32,
    /// (concat) packs (bit p-1) that are left out of the concatenated file (a "light edition"):
    /// with empty recorded locations they can be found nowhere
    pub concat_leave_out: u32,
    /// (concat, with `concat_leave_out`) the left-out pack files stay beside the one-file edition,
    /// under names the manifest does not record
    pub keep_left_out: bool,
    /// (BasicCreator) the output files of the extra content packs are named relative to the
    /// process's working directory (which the caller has set to an ancestor of the destination)
    pub extra_pack_paths_relative_to_cwd: bool,
    /// (BasicCreator) the extra content packs are written into a sub-directory with a 215-byte name
    pub extra_packs_in_long_subdir: bool,
    /// (loose / concat) a second content pack with the id of pack 1 is listed after the others: an
    /// "alternative" (the format allows several packs per id; the one declared first wins)
    pub alternative_of_pack1: bool,
    /// (concat) the loose files the container was assembled from stay next to it, at the
    /// locations the manifest records
    pub keep_loose_beside: bool,
    /// a second index carries the name of the first one (another window of the same store)
    pub dup_index_name: bool,
    /// (loose, raw first content) grow the first content of pack 1 until the 4 CRC bytes that end
    /// the pack's last table (the content-info block, right before the check block) straddle a
    /// 4096-byte page boundary of the file: a truncation at that page boundary then cuts inside a
    /// block checksum, where "mapped beyond the end of the file" lives
    pub align_last_block_crc_to_page: bool,
}

impl LogicalOpts {
    pub fn is_absent(&self, p: u16) -> bool {
        p >= 1 && p <= 32 && self.absent_ids & (1 << (p - 1)) != 0
    }
}

/// What was written, as the generator knows it (the reference model).
#[derive(Clone, Debug)]
pub struct ContentModel {
    pub pack: u16,
    pub content_id: u32,
    pub bytes: Arc<Vec<u8>>,
}

#[derive(Clone, Debug)]
pub struct EntryModel {
    pub key: Vec<u8>,
    /// index into `Model::contents`
    pub content: usize,
    pub len: u64,
    pub sig: i64,
    pub variant: Option<u8>,
    pub x: u64,
    pub tag: Vec<u8>,
}

#[derive(Clone, Debug, Default)]
pub struct Model {
    pub contents: Vec<ContentModel>,
    pub entries: Vec<EntryModel>,
    /// (index name, offset, count)
    pub indexes: Vec<(String, u32, u32)>,
    pub n_packs: u16,
    pub variants: bool,
    /// number of contents per pack id (index 0 unused)
    pub pack_counts: Vec<u32>,
    /// ids in 1..=n_packs without a pack (bit p-1)
    pub absent_ids: u32,
    /// packs the manifest lists beyond one per id (alternatives)
    pub extra_listed: u32,
    /// packs (bit p-1) that a reader of the container as built cannot find anywhere: it must
    /// report them missing
    pub unavailable: u32,
}

impl Model {
    pub fn is_absent(&self, p: u16) -> bool {
        p >= 1 && p <= 32 && self.absent_ids & (1 << (p - 1)) != 0
    }
    /// ids of the content packs that exist
    pub fn pack_ids(&self) -> Vec<u16> {
        (1..=self.n_packs).filter(|p| !self.is_absent(*p)).collect()
    }
}

#[derive(Clone, Debug)]
pub struct Built {
    /// the file to hand to `Container::new`
    pub entry: PathBuf,
    /// every file that belongs to the container (entry first)
    pub files: Vec<PathBuf>,
    /// path of each content pack file by pack id when packs are loose files
    pub pack_files: HashMap<u16, PathBuf>,
    pub model: Model,
}

// ------------------------------------------------------------------------------------------
// content byte generators

#[derive(Clone, Copy, Debug, PartialEq, Eq)]
pub enum Flavor {
    Constant,
    Text,
    Random,
    MixedLowHigh,
    MixedHighLow,
    /// starts with the magic number of a well-known file format (archives mostly store files that
    /// already are zstd / xz / gzip / zip / png / jpeg ... files), then text or random bytes
    SignedText,
    SignedRandom,
}

/// Leading bytes of common (mostly compressed) file formats.
pub const SIGNATURES: [&[u8]; 16] = [
    b"\x28\xB5\x2F\xFD",                 // zstd
    b"\xFD7zXZ\x00",                      // xz
    b"\x1F\x8B\x08",                      // gzip
    b"BZh9",                              // bzip2
    b"PK\x03\x04",                        // zip
    b"\x89PNG\r\n\x1a\n",                 // png
    b"\xFF\xD8\xFF\xE0",                  // jpeg
    b"\x04\x22\x4D\x18",                  // lz4 frame
    b"\x5D\x00\x00\x80\x00",              // lzma alone
    b"7z\xBC\xAF\x27\x1C",                // 7z
    b"GIF89a",                            // gif
    b"%PDF-1.7",                          // pdf
    b"\x7FELF",                           // elf
    b"jbkC",                              // a jubako container inside a jubako container
    b"Rar!\x1A\x07",                      // rar
    b"\x00\x00\x00\x20ftypisom",           // mp4
];

const WORDS: [&str; 12] = [
    "jubako ", "pack ", "cluster ", "entry ", "value ", "store ", "the ", "of ", "and ", "blob ",
    "index ", "content ",
];

pub fn gen_bytes(rng: &mut Rng, idx: usize, len: usize, flavor: Flavor) -> Vec<u8> {
    let mut v = Vec::with_capacity(len);
    let fill_text = |rng: &mut Rng, v: &mut Vec<u8>, upto: usize| {
        while v.len() < upto {
            let w = rng.pick(&WORDS);
            v.extend_from_slice(w.as_bytes());
        }
        v.truncate(upto);
    };
    match flavor {
        Flavor::Constant => {
            let b = b'a' + (idx % 26) as u8;
            v.resize(len, b);
        }
        Flavor::Text => fill_text(rng, &mut v, len),
        Flavor::Random => {
            v = rng.bytes(len);
        }
        Flavor::MixedLowHigh => {
            let cut = len.min(4096);
            fill_text(rng, &mut v, cut);
            let rest = rng.bytes(len - cut);
            v.extend_from_slice(&rest);
        }
        Flavor::MixedHighLow => {
            let cut = len.min(4096);
            v = rng.bytes(cut);
            fill_text(rng, &mut v, len);
        }
        Flavor::SignedText => fill_text(rng, &mut v, len),
        Flavor::SignedRandom => {
            v = rng.bytes(len);
        }
    }
    // identity stamp so that a foreign blob is attributable (after the file signature, if any)
    let at = if matches!(flavor, Flavor::SignedText | Flavor::SignedRandom) {
        let sig = SIGNATURES[(idx + rng.below(SIGNATURES.len() as u64) as usize) % SIGNATURES.len()];
        let n = sig.len().min(v.len());
        v[..n].copy_from_slice(&sig[..n]);
        n
    } else {
        0
    };
    let stamp = format!("#{:06}#", idx % 1_000_000);
    let n = stamp.len().min(v.len() - at);
    v[at..at + n].copy_from_slice(&stamp.as_bytes()[..n]);
    v
}

pub const BOUNDARY_LENS: [usize; 18] = [
    0, 1, 2, 7, 8, 9, 63, 64, 255, 256, 257, 1023, 4095, 4096, 4097, 5000, 65535, 65536,
];

pub struct GenParams {
    pub max_contents: usize,
    pub max_len: usize,
    pub packagings: Vec<Packaging>,
    pub comps: Vec<Comp>,
    pub max_packs: u16,
    pub srcs: Vec<SrcKind>,
    /// all contents take the same hint (deterministic F-flavour images with > 1 cluster)
    pub homogeneous_hint: bool,
}

impl GenParams {
    pub fn small() -> Self {
        Self {
            max_contents: 6,
            max_len: 300,
            packagings: vec![
                Packaging::Loose,
                Packaging::Concat,
                Packaging::BasicOne,
                Packaging::BasicTwo,
                Packaging::BasicNoConcat,
            ],
            comps: Comp::ALL_DEFAULT.to_vec(),
            max_packs: 1,
            srcs: vec![SrcKind::Cursor],
            homogeneous_hint: true,
        }
    }
}

pub fn gen_len(rng: &mut Rng, max_len: usize) -> usize {
    if rng.chance(1, 3) {
        let cands: Vec<usize> = BOUNDARY_LENS
            .iter()
            .copied()
            .filter(|l| *l <= max_len)
            .collect();
        *rng.pick(&cands)
    } else {
        rng.range(0, max_len as u64) as usize
    }
}

pub fn gen_logical(rng: &mut Rng, p: &GenParams) -> Logical {
    let comp = *rng.pick(&p.comps);
    let packaging = *rng.pick(&p.packagings);
    let n_packs = if packaging.is_basic() {
        1
    } else {
        rng.range(1, p.max_packs.max(1) as u64) as u16
    };
    let n = rng.range(1, p.max_contents as u64) as usize;
    let hint0 = *rng.pick(&[Hint::Yes, Hint::No, Hint::Detect]);
    let mut contents = Vec::with_capacity(n);
    for i in 0..n {
        let len = gen_len(rng, p.max_len);
        let flavor = *rng.pick(&[
            Flavor::Constant,
            Flavor::Text,
            Flavor::Random,
            Flavor::MixedLowHigh,
            Flavor::MixedHighLow,
            Flavor::SignedText,
            Flavor::SignedRandom,
        ]);
        let bytes = Arc::new(gen_bytes(rng, i, len, flavor));
        let hint = if p.homogeneous_hint {
            match hint0 {
                Hint::Detect => Hint::Yes,
                h => h,
            }
        } else {
            *rng.pick(&[Hint::Yes, Hint::No, Hint::Detect])
        };
        contents.push(ContentSpec {
            bytes,
            hint,
            src: *rng.pick(&p.srcs),
            pack: rng.range(1, n_packs as u64) as u16,
        });
    }
    let schema = SchemaSpec {
        key_prefix: *rng.pick(&[0usize, 1, 2, 5]),
        store: *rng.pick(&[StoreKind::Plain, StoreKind::Indexed]),
        variants: rng.chance(1, 2),
        key_pad: 0,
    };
    Logical {
        comp,
        packaging,
        n_packs,
        contents,
        schema,
        dedup: false,
        aux_seed: rng.next_u64(),
        opts: Default::default(),
    }
}

// ------------------------------------------------------------------------------------------
// perturbing reader

#[derive(Clone, Copy, Debug, Default)]
pub struct SimReaderCfg {
    /// probability (per mille) that a read returns fewer bytes than asked
    pub short_pm: u32,
    /// probability (per mille) that a read returns `Interrupted`
    pub intr_pm: u32,
    /// fail hard at this read call (0-based), if any
    pub err_at_call: Option<u64>,
}

pub struct SimReader {
    data: Arc<Vec<u8>>,
    pos: u64,
    rng: Rng,
    cfg: SimReaderCfg,
    calls: u64,
    pub stats: Arc<SimReaderStats>,
}

#[derive(Default, Debug)]
pub struct SimReaderStats {
    pub short: std::sync::atomic::AtomicU64,
    pub intr: std::sync::atomic::AtomicU64,
    pub err: std::sync::atomic::AtomicU64,
    pub calls: std::sync::atomic::AtomicU64,
}

impl SimReader {
    pub fn new(data: Arc<Vec<u8>>, seed: u64, cfg: SimReaderCfg, stats: Arc<SimReaderStats>) -> Self {
        Self {
            data,
            pos: 0,
            rng: Rng::derive(seed, "reader-perturbation", 0),
            cfg,
            calls: 0,
            stats,
        }
    }
}

impl Read for SimReader {
    fn read(&mut self, buf: &mut [u8]) -> std::io::Result<usize> {
        use std::sync::atomic::Ordering::Relaxed;
        let call = self.calls;
        self.calls += 1;
        self.stats.calls.fetch_add(1, Relaxed);
        if self.cfg.err_at_call == Some(call) {
            self.stats.err.fetch_add(1, Relaxed);
            return Err(std::io::Error::from_raw_os_error(5)); // EIO
        }
        let left = (self.data.len() as u64).saturating_sub(self.pos) as usize;
        let mut n = buf.len().min(left);
        if n > 0 && self.rng.below(1000) < self.cfg.intr_pm as u64 {
            self.stats.intr.fetch_add(1, Relaxed);
            return Err(std::io::ErrorKind::Interrupted.into());
        }
        if n > 1 && self.rng.below(1000) < self.cfg.short_pm as u64 {
            n = self.rng.range(1, (n - 1) as u64) as usize;
            self.stats.short.fetch_add(1, Relaxed);
        }
        let p = self.pos as usize;
        buf[..n].copy_from_slice(&self.data[p..p + n]);
        self.pos += n as u64;
        Ok(n)
    }
}

impl Seek for SimReader {
    fn seek(&mut self, pos: SeekFrom) -> std::io::Result<u64> {
        let new = match pos {
            SeekFrom::Start(o) => o as i64,
            SeekFrom::Current(o) => self.pos as i64 + o,
            SeekFrom::End(o) => self.data.len() as i64 + o,
        };
        if new < 0 {
            return Err(std::io::ErrorKind::InvalidInput.into());
        }
        self.pos = new as u64;
        Ok(self.pos)
    }
}

// ------------------------------------------------------------------------------------------
// builder

pub type DynErr = Box<dyn std::error::Error + Send + Sync>;

pub struct BuildOpts {
    pub progress: Arc<dyn creator::Progress>,
    pub sim_cfg: SimReaderCfg,
    pub sim_stats: Arc<SimReaderStats>,
}

impl Default for BuildOpts {
    fn default() -> Self {
        Self {
            progress: Arc::new(()),
            sim_cfg: SimReaderCfg {
                short_pm: 250,
                intr_pm: 100,
                err_at_call: None,
            },
            sim_stats: Default::default(),
        }
    }
}

fn utf8(p: &Path) -> &camino::Utf8Path {
    camino::Utf8Path::from_path(p).expect("utf8 path")
}

pub fn make_input(
    spec: &ContentSpec,
    idx: usize,
    scratch: &Path,
    aux_seed: u64,
    opts: &BuildOpts,
) -> std::io::Result<Box<dyn creator::InputReader>> {
    Ok(match spec.src {
        SrcKind::Cursor => Box::new(std::io::Cursor::new(spec.bytes.as_ref().clone())),
        SrcKind::File => {
            let p = scratch.join(format!("in{idx}.bin"));
            std::fs::write(&p, spec.bytes.as_ref())?;
            Box::new(InputFile::open(&p)?)
        }
        SrcKind::FileRange => {
            let p = scratch.join(format!("inr{idx}.bin"));
            let mut rng = Rng::derive(aux_seed, "filerange", idx as u64);
            let before = rng.range(1, 97) as usize;
            let after = rng.range(0, 50) as usize;
            let mut f = std::fs::File::create(&p)?;
            f.write_all(&vec![0xEE; before])?;
            f.write_all(spec.bytes.as_ref())?;
            f.write_all(&vec![0xDD; after])?;
            drop(f);
            Box::new(InputFile::new_range(
                std::fs::File::open(&p)?,
                before as u64,
                Some(spec.bytes.len() as u64),
            )?)
        }
        SrcKind::FilePeeked => {
            let p = scratch.join(format!("inp{idx}.bin"));
            std::fs::write(&p, spec.bytes.as_ref())?;
            let mut f = InputFile::open(&p)?;
            let mut rng = Rng::derive(aux_seed, "filepeek", idx as u64);
            let mut head = vec![0u8; rng.range(1, 9) as usize];
            let _ = f.read(&mut head)?;
            Box::new(f)
        }
        SrcKind::FileRangeToEnd => {
            let p = scratch.join(format!("ine{idx}.bin"));
            let mut rng = Rng::derive(aux_seed, "filerange-end", idx as u64);
            let before = rng.range(1, 1000) as usize;
            let mut f = std::fs::File::create(&p)?;
            f.write_all(&vec![0xEE; before])?;
            f.write_all(spec.bytes.as_ref())?;
            drop(f);
            Box::new(InputFile::new_range(std::fs::File::open(&p)?, before as u64, None)?)
        }
        SrcKind::SharedArchive => {
            let mut guard = SHARED_ARCHIVE.lock().unwrap_or_else(|e| e.into_inner());
            match guard.as_mut().and_then(|m| m.remove(&(scratch.to_path_buf(), idx))) {
                Some(f) => Box::new(f),
                None => return Err(std::io::Error::other("harness: prepare_shared_archive was not called for this work")),
            }
        }
        SrcKind::FileReplaced => {
            let p = scratch.join(format!("inx{idx}.bin"));
            std::fs::write(&p, spec.bytes.as_ref())?;
            let f = InputFile::open(&p)?;
            let other: Vec<u8> = spec.bytes.iter().map(|b| b ^ 0x5A).collect();
            let tmp = scratch.join(format!("inx{idx}.new"));
            std::fs::write(&tmp, &other)?;
            if idx % 2 == 0 {
                std::fs::rename(&tmp, &p)?;
            } else {
                std::fs::remove_file(&p)?;
                std::fs::remove_file(&tmp)?;
            }
            Box::new(f)
        }
        SrcKind::Sim => {
            let r = SimReader::new(
                Arc::clone(&spec.bytes),
                crate::prng::hash_label(aux_seed, "simreader", idx as u64),
                opts.sim_cfg,
                Arc::clone(&opts.sim_stats),
            );
            Box::new(jbk::verif::HookedInput::new(
                Box::new(r),
                spec.bytes.len() as u64,
            ))
        }
    })
}

type PN = &'static str;
type VN = &'static str;
type EStore = creator::EntryStore<PN, VN, creator::BasicEntry<PN, VN>>;

struct DirParts {
    value_store: creator::StoreHandle,
    tag_store: creator::StoreHandle,
    entry_store: Box<EStore>,
    indexes: Vec<(String, u32, u32)>,
}

impl EntryStoreTrait for DirParts {
    fn finalize(self: Box<Self>, directory_pack: &mut creator::DirectoryPackCreator) {
        directory_pack.add_value_store(self.value_store);
        directory_pack.add_value_store(self.tag_store);
        let id = directory_pack.add_entry_store(self.entry_store);
        for (name, offset, count) in &self.indexes {
            directory_pack.create_index(
                name,
                free_bytes::<4>(*offset as u64 + 17, "index-free", *count as u64).into(),
                0.into(),
                id,
                (*count).into(),
                jbk::EntryIdx::from(*offset).into(),
            );
        }
    }
}

pub fn key_for(i: usize, pad: usize) -> Vec<u8> {
    // keys share prefixes of various lengths and include 0x00 / 0xff bytes now and then
    let mut k = format!("k{:03}", (i * 7919) % 1000).into_bytes();
    if i % 5 == 3 {
        k.push(0x00);
    }
    if i % 7 == 4 {
        k.push(0xff);
    }
    k.extend(format!("-{i}").into_bytes());
    for j in 0..pad {
        k.push(b'a' + ((i + j) % 26) as u8);
    }
    k
}

fn make_dir_parts(logical: &Logical, model: &mut Model) -> DirParts {
    let s = &logical.schema;
    let mk_store = || match s.store {
        StoreKind::Plain => creator::ValueStore::new_plain(None),
        StoreKind::Indexed => creator::ValueStore::new_indexed(),
    };
    let value_store = mk_store();
    let tag_store = mk_store();
    let common = schema::CommonProperties::new(vec![
        schema::Property::new_array(s.key_prefix, value_store.clone(), "key"),
        schema::Property::new_content_address("addr"),
        schema::Property::new_uint("len"),
        schema::Property::new_sint("sig"),
    ]);
    let variants = if s.variants {
        vec![
            (
                "V0",
                schema::VariantProperties::new(vec![schema::Property::new_uint("x")]),
            ),
            (
                "V1",
                schema::VariantProperties::new(vec![schema::Property::new_array(
                    1,
                    tag_store.clone(),
                    "tag",
                )]),
            ),
        ]
    } else {
        vec![]
    };
    let sch = schema::Schema::<PN, VN>::new(common, variants, None);
    let mut entry_store = Box::new(creator::EntryStore::new(sch, None));
    for (i, c) in model.contents.iter().enumerate() {
        let key = key_for(i, s.key_pad);
        let len = c.bytes.len() as u64;
        let sig: i64 = match i % 4 {
            0 => -((i % 100) as i64) - 1,
            1 => (i as i64 * 7) % 120,
            // magnitudes stay below 2^15: larger negative values do not round-trip on the pinned
            // tree (column width from unsigned magnitude; C02 territory, not claimed here)
            2 => -100 - (i as i64 % 20),
            _ => 0,
        };
        let variant = if s.variants { Some((i % 2) as u8) } else { None };
        let x = (i as u64) * 257 + 1;
        let tag = format!("t{}", i % 3).into_bytes();
        let mut values: HashMap<PN, jbk::Value> = HashMap::from([
            ("key", jbk::Value::Array(key.as_slice().into())),
            (
                "addr",
                jbk::Value::Content(jbk::ContentAddress::new(
                    c.pack.into(),
                    c.content_id.into(),
                )),
            ),
            ("len", jbk::Value::Unsigned(len)),
            ("sig", jbk::Value::Signed(sig)),
        ]);
        let vname = match variant {
            Some(0) => {
                values.insert("x", jbk::Value::Unsigned(x));
                Some("V0")
            }
            Some(_) => {
                values.insert("tag", jbk::Value::Array(tag.as_slice().into()));
                Some("V1")
            }
            None => None,
        };
        entry_store.add_entry(creator::BasicEntry::new_from_schema(
            &entry_store.schema,
            vname,
            values,
        ));
        model.entries.push(EntryModel {
            key,
            content: i,
            len,
            sig,
            variant,
            x,
            tag,
        });
    }
    let n = model.entries.len() as u32;
    let mut indexes = vec![("all".to_string(), 0, n)];
    if n >= 3 {
        indexes.push(("window".to_string(), 1, n - 2));
    }
    if logical.opts.dup_index_name && n >= 2 {
        // same name as the first index, another window: a lookup by name answers the first
        indexes.push(("all".to_string(), 1, n - 1));
    }
    model.indexes = indexes.clone();
    model.variants = s.variants;
    DirParts {
        value_store,
        tag_store,
        entry_store,
        indexes,
    }
}

/// Assign content ids per pack in insertion order (no dedup here; the dedup adder is exercised
/// by the checks that need it).
pub fn plan_model(logical: &Logical) -> Model {
    let mut model = Model {
        n_packs: logical.n_packs,
        pack_counts: vec![0; logical.n_packs as usize + 1],
        absent_ids: logical.opts.absent_ids,
        unavailable: match logical.packaging {
            Packaging::Loose => logical.opts.url_located,
            // (a left-out pack that stays at its recorded, non-empty location is found there)
            Packaging::Concat if logical.opts.keep_left_out && !logical.opts.empty_locations => 0,
            Packaging::Concat => logical.opts.concat_leave_out,
            _ => 0,
        },
        ..Default::default()
    };
    for c in &logical.contents {
        assert!(!logical.opts.is_absent(c.pack), "content in an absent pack");
        let id = model.pack_counts[c.pack as usize];
        model.pack_counts[c.pack as usize] += 1;
        model.contents.push(ContentModel {
            pack: c.pack,
            content_id: id,
            bytes: Arc::clone(&c.bytes),
        });
    }
    model
}

/// The location recorded for content pack `p` of a loose container, relative to the directory of
/// the manifest (see `LogicalOpts::pack_location_style`).
pub fn pack_location(logical: &Logical, name: &str, p: u16) -> String {
    let file = format!("{name}.c{p}.jbkc");
    if p >= 1 && p <= 32 && logical.opts.url_located & (1 << (p - 1)) != 0 {
        return format!("https://packs.example.org/editions/{file}");
    }
    match (logical.packaging, logical.opts.pack_location_style) {
        (Packaging::Loose, 1) => format!("sub/{file}"),
        (Packaging::Loose, 2) => format!("../sib/{file}"),
        (Packaging::Loose, 3) => format!("./{file}"),
        _ => file,
    }
}

/// Seeded, non-zero "free data" (application bytes the format carries in pack headers, index
/// headers and, per pack, in the manifest): defaults of all zeros would make damage to them
/// invisible to every observation.
pub fn free_bytes<const N: usize>(seed: u64, tag: &str, k: u64) -> [u8; N] {
    let mut b = [0u8; N];
    Rng::derive(seed, tag, k).fill(&mut b);
    for (i, x) in b.iter_mut().enumerate() {
        if *x == 0 {
            *x = 1 + i as u8;
        }
    }
    b
}

/// The manifest's per-pack free data (variable length, one of them empty).
pub fn pack_manifest_free(seed: u64, p: u16) -> Vec<u8> {
    if p == 2 {
        return vec![];
    }
    let mut rng = Rng::derive(seed, "manifest-pack-free", p as u64);
    let n = rng.range(1, 40) as usize;
    let mut v = format!("fd{p}:").into_bytes();
    v.extend(rng.bytes(n));
    v
}

/// Build the container described by `logical` into `dir` (which must exist and be empty
/// apart from other containers' files); `name` is the base name of the produced files.
pub fn build(logical: &Logical, dir: &Path, name: &str, opts: &BuildOpts) -> Result<Built, DynErr> {
    if logical.opts.align_last_block_crc_to_page {
        assert!(logical.packaging == Packaging::Loose, "alignment: loose packaging only");
        let mut l = logical.clone();
        l.opts.align_last_block_crc_to_page = false;
        let first = l.contents.iter().position(|c| c.pack == 1).expect("a content in pack 1");
        for _round in 0..4 {
            let tmp = dir.join(format!("{name}.align"));
            std::fs::create_dir_all(&tmp)?;
            let probe = build(&l, &tmp, name, opts)?;
            let bytes = std::fs::read(&probe.pack_files[&1])?;
            let _ = std::fs::remove_dir_all(&tmp);
            let span = crate::layout::scan_file(&bytes).into_iter().next().ok_or("alignment: no pack header")?;
            // the block CRC occupies [check_info_pos - 4, check_info_pos): put its third byte on a page start
            let at = span.check_info_pos - 2;
            let d = (4096 - at % 4096) % 4096;
            if d == 0 {
                return build(&l, dir, name, opts);
            }
            let mut grown = (*l.contents[first].bytes).clone();
            let fill = grown.last().copied().unwrap_or(b'.');
            grown.extend(std::iter::repeat(fill).take(d as usize));
            l.contents[first].bytes = Arc::new(grown);
        }
        return Err("alignment did not converge".into());
    }
    let scratch = dir.join(format!("{name}.inputs"));
    std::fs::create_dir_all(&scratch)?;
    prepare_shared_archive(&logical.contents, &scratch, logical.aux_seed)?;
    let r = build_inner(logical, dir, name, &scratch, opts);
    let _ = std::fs::remove_dir_all(&scratch);
    r
}

fn build_inner(
    logical: &Logical,
    dir: &Path,
    name: &str,
    scratch: &Path,
    opts: &BuildOpts,
) -> Result<Built, DynErr> {
    let mut model = plan_model(logical);
    let vendor = jbk::VendorId::from(VENDOR);
    match logical.packaging {
        Packaging::Loose | Packaging::Concat => {
            let mut pack_files = HashMap::new();
            let mut pack_datas = Vec::new();
            let mut alt_pack: Option<(creator::PackData, PathBuf)> = None;
            for p in 1..=logical.n_packs {
                if logical.opts.is_absent(p) {
                    continue;
                }
                let path = if logical.opts.url_located & (1 << (p - 1)) != 0 {
                    dir.join(format!("{name}.c{p}.jbkc"))
                } else {
                    dir.join(pack_location(logical, name, p))
                };
                if let Some(parent) = path.parent() {
                    std::fs::create_dir_all(parent)?;
                }
                let mut cpc = creator::ContentPackCreator::new_with_progress(
                    utf8(&path),
                    jbk::PackId::from(p),
                    vendor,
                    free_bytes::<24>(logical.aux_seed, "content-pack-free", p as u64).into(),
                    logical.comp.to_jbk(),
                    Arc::clone(&opts.progress),
                )?;
                for (i, c) in logical.contents.iter().enumerate() {
                    if c.pack != p {
                        continue;
                    }
                    let input = make_input(c, i, scratch, logical.aux_seed, opts)?;
                    let addr = cpc.add_content(input, c.hint.to_jbk())?;
                    let m = &model.contents[i];
                    if addr.pack_id != jbk::PackId::from(m.pack)
                        || addr.content_id != jbk::ContentIdx::from(m.content_id)
                    {
                        return Err(format!(
                            "address returned for content {i} is {addr:?}, planned ({}, {})",
                            m.pack, m.content_id
                        )
                        .into());
                    }
                }
                let (_file, mut data) = cpc.finalize()?;
                data.free_data = pack_manifest_free(logical.aux_seed, p);
                pack_datas.push((data, path.clone()));
                pack_files.insert(p, path);
            }
            if logical.opts.alternative_of_pack1 {
                let path = dir.join(format!("{name}.c1alt.jbkc"));
                let mut cpc = creator::ContentPackCreator::new_with_progress(
                    utf8(&path),
                    jbk::PackId::from(1),
                    vendor,
                    free_bytes::<24>(logical.aux_seed, "content-pack-free", 1000).into(),
                    logical.comp.to_jbk(),
                    Arc::clone(&opts.progress),
                )?;
                for c in logical.contents.iter().filter(|c| c.pack == 1) {
                    // same entries, other bytes (e.g. another resolution of the same images)
                    let mut b = b"ALTERNATIVE:".to_vec();
                    b.extend_from_slice(&c.bytes);
                    cpc.add_content(Box::new(std::io::Cursor::new(b)), c.hint.to_jbk())?;
                }
                let (_file, mut data) = cpc.finalize()?;
                data.free_data = b"alt".to_vec();
                alt_pack = Some((data, path));
                model.extra_listed = 1;
            }
            let parts = Box::new(make_dir_parts(logical, &mut model));
            let mut dpc = creator::DirectoryPackCreator::new(
                jbk::PackId::from(0),
                vendor,
                free_bytes::<24>(logical.aux_seed, "directory-pack-free", 0).into(),
            );
            parts.finalize(&mut dpc);
            let dir_path = dir.join(format!("{name}.jbkd"));
            let mut dir_file = std::fs::OpenOptions::new()
                .read(true)
                .write(true)
                .create(true)
                .truncate(true)
                .open(&dir_path)?;
            let mut dir_data = dpc.finalize()?.write(&mut dir_file)?;
            dir_data.free_data = pack_manifest_free(logical.aux_seed, 0);
            drop(dir_file);

            let mut mpc = creator::ManifestPackCreator::new(
                vendor,
                free_bytes::<24>(logical.aux_seed, "manifest-pack-free-header", 0).into(),
            );
            let loc = |s: String| if logical.opts.empty_locations { String::new() } else { s };
            let mut dir_data = Some(dir_data);
            if !logical.opts.dir_not_first {
                mpc.add_pack(dir_data.take().unwrap(), loc(format!("{name}.jbkd")));
            }
            let mut pack_datas = pack_datas;
            if logical.opts.shuffle_manifest {
                let mut rng = Rng::derive(logical.aux_seed, "manifest-order", 0);
                rng.shuffle(&mut pack_datas);
                if pack_datas.len() >= 2 && pack_datas.windows(2).all(|w| w[0].0.pack_id.into_u64() < w[1].0.pack_id.into_u64()) {
                    pack_datas.swap(0, 1);
                }
            }
            for (data, path) in pack_datas {
                let _ = &path;
                let p = data.pack_id.into_u64() as u16;
                mpc.add_pack(data, loc(pack_location(logical, name, p)));
                if let Some(d) = dir_data.take() {
                    mpc.add_pack(d, loc(format!("{name}.jbkd")));
                }
            }
            if let Some(d) = dir_data.take() {
                mpc.add_pack(d, loc(format!("{name}.jbkd")));
            }
            let mut alt_file = None;
            if let Some((data, path)) = alt_pack.take() {
                mpc.add_pack(data, loc(path.file_name().unwrap().to_str().unwrap().to_string()));
                alt_file = Some(path);
            }
            let man_path = dir.join(format!("{name}.jbkm"));
            let mut man_file = std::fs::OpenOptions::new()
                .read(true)
                .write(true)
                .create(true)
                .truncate(true)
                .open(&man_path)?;
            mpc.finalize(&mut man_file)?;
            drop(man_file);

            let mut files = vec![man_path.clone(), dir_path.clone()];
            for p in 1..=logical.n_packs {
                if let Some(f) = pack_files.get(&p) {
                    files.push(f.clone());
                }
            }
            if let Some(f) = alt_file {
                files.push(f);
            }
            if logical.packaging == Packaging::Concat {
                let mut order = files.clone();
                for p in 1..=logical.n_packs {
                    if logical.opts.concat_leave_out & (1 << (p - 1)) != 0 {
                        if let Some(f) = pack_files.get(&p) {
                            order.retain(|x| x != f);
                        }
                    }
                }
                let mut rng = Rng::derive(logical.aux_seed, "concat-order", 0);
                rng.shuffle(&mut order);
                if logical.opts.concat_dup {
                    // the first content pack once more, somewhere before the last pack
                    let dup = pack_files[&1].clone();
                    let at = rng.usize_below(order.len());
                    order.insert(at, dup);
                }
                let out = dir.join(format!("{name}.jbk"));
                jbk::tools::concat(&order, utf8(&out))?;
                let mut kept = vec![out.clone()];
                for f in &files {
                    let left_out = (1..=logical.n_packs).any(|p| logical.opts.concat_leave_out & (1 << (p - 1)) != 0 && pack_files.get(&p) == Some(f));
                    if logical.opts.keep_loose_beside && *f != man_path {
                        kept.push(f.clone());
                    } else if logical.opts.keep_left_out && left_out && !logical.opts.empty_locations {
                        // not part of the one-file edition, but where the manifest says it is
                        kept.push(f.clone());
                    } else if logical.opts.keep_left_out && left_out {
                        // the pack that is not part of the one-file edition lies beside it, under
                        // a name the manifest does not record
                        let to = dir.join(format!("{name}.separately-shipped-{}.jbkc", kept.len()));
                        std::fs::rename(f, &to)?;
                        kept.push(to);
                    } else {
                        std::fs::remove_file(f)?;
                    }
                }
                Ok(Built {
                    entry: out.clone(),
                    files: kept,
                    pack_files: HashMap::new(),
                    model,
                })
            } else {
                Ok(Built {
                    entry: man_path,
                    files,
                    pack_files,
                    model,
                })
            }
        }
        Packaging::BasicOne | Packaging::BasicTwo | Packaging::BasicNoConcat => {
            assert!(!logical.opts.dir_not_first && !logical.opts.is_absent(1), "manifest order / no pack 1: loose and concat packagings only");
            let mode = match logical.packaging {
                Packaging::BasicOne => ConcatMode::OneFile,
                Packaging::BasicTwo => ConcatMode::TwoFiles,
                _ => ConcatMode::NoConcat,
            };
            let out = dir.join(format!("{name}.jbk"));
            let mut bc = creator::BasicCreator::new(
                utf8(&out),
                mode,
                vendor,
                logical.comp.to_jbk(),
                Arc::clone(&opts.progress),
            )?;
            // content packs 2.. are "extra" packs written to their own atomic files and handed to
            // BasicCreator::finalize
            let mut extras: Vec<creator::ContentPackCreator<dyn creator::PackRecipient>> = Vec::new();
            let mut extra_slot: HashMap<u16, usize> = HashMap::new();
            for p in 2..=logical.n_packs {
                if logical.opts.is_absent(p) {
                    continue;
                }
                extra_slot.insert(p, extras.len());
                let mut path = dir.join(format!("{name}.x{p}.jbkc"));
                if logical.opts.extra_packs_in_long_subdir {
                    let sub = dir.join("s".repeat(215));
                    std::fs::create_dir_all(&sub)?;
                    path = sub.join(format!("{name}.x{p}.jbkc"));
                }
                if logical.opts.extra_pack_paths_relative_to_cwd {
                    let cwd = std::env::current_dir()?;
                    path = path.strip_prefix(&cwd).map_err(|_| "the working directory is not an ancestor of the destination")?.to_path_buf();
                }
                let file: Box<dyn creator::PackRecipient> = creator::AtomicOutFile::new(utf8(&path))?;
                extras.push(creator::ContentPackCreator::new_from_output_with_progress(
                    file,
                    jbk::PackId::from(p),
                    vendor,
                    Default::default(),
                    logical.comp.to_jbk(),
                    Arc::clone(&opts.progress),
                )?);
            }
            for (i, c) in logical.contents.iter().enumerate() {
                let input = make_input(c, i, scratch, logical.aux_seed, opts)?;
                let addr = if c.pack >= 2 {
                    extras[extra_slot[&c.pack]].add_content(input, c.hint.to_jbk())?
                } else {
                    bc.add_content(input, c.hint.to_jbk())?
                };
                let m = &model.contents[i];
                if addr.pack_id != jbk::PackId::from(m.pack)
                    || addr.content_id != jbk::ContentIdx::from(m.content_id)
                {
                    return Err(format!(
                        "address returned for content {i} is {addr:?}, planned ({}, {})",
                        m.pack, m.content_id
                    )
                    .into());
                }
            }
            let parts = Box::new(make_dir_parts(logical, &mut model));
            bc.finalize(parts, extras)?;
            let mut files = expected_files(logical.packaging, dir, name);
            for p in 2..=logical.n_packs {
                if !logical.opts.is_absent(p) {
                    files.push(dir.join(format!("{name}.x{p}.jbkc")));
                }
            }
            Ok(Built {
                entry: out,
                files,
                pack_files: HashMap::new(),
                model,
            })
        }
    }
}

/// The files a packaging is expected to leave behind (entry first).
pub fn expected_files(packaging: Packaging, dir: &Path, name: &str) -> Vec<PathBuf> {
    let out = dir.join(format!("{name}.jbk"));
    match packaging {
        Packaging::BasicOne | Packaging::Concat => vec![out],
        Packaging::BasicTwo => vec![out, dir.join(format!("{name}.jbkc"))],
        Packaging::BasicNoConcat => vec![
            out,
            dir.join(format!("{name}.jbkc")),
            // BasicCreator asks for the extension ".jbkd" with a leading dot
            dir.join(format!("{name}..jbkd")),
        ],
        Packaging::Loose => vec![dir.join(format!("{name}.jbkm")), dir.join(format!("{name}.jbkd"))],
    }
}

pub fn describe(l: &Logical) -> String {
    let lens: Vec<String> = l
        .contents
        .iter()
        .map(|c| {
            format!(
                "{}{}p{}",
                c.bytes.len(),
                match c.hint {
                    Hint::Yes => "Y",
                    Hint::No => "N",
                    Hint::Detect => "D",
                },
                c.pack
            )
        })
        .collect();
    format!(
        "{} {} packs={} prefix={} store={:?} variants={} contents=[{}]",
        l.packaging.name(),
        l.comp.name(),
        l.n_packs,
        l.schema.key_prefix,
        l.schema.store,
        l.schema.variants,
        lens.join(",")
    )
}
