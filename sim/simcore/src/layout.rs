//! A small independent scanner of the pack layout (pack header, container locators, manifest
//! pack-info slots). It reads only fixed-offset header fields; it is used to decide where a
//! fault lands (which pack, inside the checksummed range or not), never to decide a verdict.

#[derive(Clone, Debug, PartialEq, Eq)]
pub struct PackSpan {
    /// b'm', b'd', b'c' or b'C'
    pub kind: u8,
    /// offset of the pack in the file
    pub start: u64,
    pub size: u64,
    /// relative to `start`
    pub check_info_pos: u64,
    pub uuid: [u8; 16],
    /// for manifests: offsets (relative to `start`) of the 256-byte pack-info slots
    pub info_slots: Vec<u64>,
}

impl PackSpan {
    pub fn check_block_size(&self) -> u64 {
        self.size - 64 - self.check_info_pos
    }
    /// end (exclusive, relative) of the range covered by the pack's checksum plus its check block
    pub fn checked_end(&self) -> u64 {
        self.check_info_pos + self.check_block_size()
    }
    pub fn contains(&self, pos: u64) -> bool {
        pos >= self.start && pos < self.start + self.size
    }
    /// is `pos` (absolute) one of the manifest bytes exempt from the global check?
    pub fn is_exempt(&self, pos: u64) -> bool {
        if self.kind != b'm' || pos < self.start {
            return false;
        }
        let rel = pos - self.start;
        self.info_slots
            .iter()
            .any(|s| rel >= s + 38 && rel < s + 256)
    }
}

fn u64_at(b: &[u8], o: usize) -> Option<u64> {
    b.get(o..o + 8).map(|s| u64::from_le_bytes(s.try_into().unwrap()))
}

fn parse_header(b: &[u8], start: u64) -> Option<PackSpan> {
    let s = start as usize;
    let h = b.get(s..s + 64)?;
    if &h[0..3] != b"jbk" {
        return None;
    }
    let kind = h[3];
    let size = u64_at(h, 32)?;
    let check_info_pos = u64_at(h, 40)?;
    if size < 64 + check_info_pos || start + size > b.len() as u64 {
        return None;
    }
    let mut uuid = [0u8; 16];
    uuid.copy_from_slice(&h[10..26]);
    let mut info_slots = vec![];
    if kind == b'm' {
        let count = u16::from_le_bytes(b.get(s + 64..s + 66)?.try_into().unwrap()) as u64;
        for k in 0..count {
            info_slots.push(check_info_pos - (count - k) * 256);
        }
    }
    Some(PackSpan {
        kind,
        start,
        size,
        check_info_pos,
        uuid,
        info_slots,
    })
}

/// All packs of a pristine file: the top-level pack first, then (for a container) its inner packs.
pub fn scan_file(b: &[u8]) -> Vec<PackSpan> {
    let mut out = vec![];
    let Some(top) = parse_header(b, 0) else {
        return out;
    };
    let is_container = top.kind == b'C';
    out.push(top);
    if is_container {
        let locators_pos = u64_at(b, 64).unwrap_or(0) as usize;
        let count = b
            .get(72..74)
            .map(|s| u16::from_le_bytes(s.try_into().unwrap()))
            .unwrap_or(0) as usize;
        for k in 0..count {
            let o = locators_pos + k * 36;
            let (Some(_size), Some(pos)) = (u64_at(b, o + 16), u64_at(b, o + 24)) else {
                break;
            };
            if let Some(span) = parse_header(b, pos) {
                out.push(span);
            }
        }
    }
    out
}

/// Container-level structure offsets of a container file (for fault targeting / evidence).
pub fn describe(spans: &[PackSpan]) -> String {
    spans
        .iter()
        .map(|s| {
            format!(
                "{}@{}+{}(chk@{})",
                s.kind as char, s.start, s.size, s.check_info_pos
            )
        })
        .collect::<Vec<_>>()
        .join(" ")
}

/// Structural completeness of a pack file, decided without the library: the top-level pack
/// declares exactly the file's length, its last 64 bytes mirror its first 64, and the same
/// holds for every inner pack of a container.
pub fn complete(b: &[u8]) -> Result<(), String> {
    if b.len() < 128 {
        return Err(format!("only {} bytes", b.len()));
    }
    let spans = scan_file(b);
    let Some(top) = spans.first() else {
        return Err("no pack header at offset 0".into());
    };
    // A container pack declares check_info_pos + 64: its own 5-byte check block is not counted
    // (a quirk of the pinned writer), so the real extent is 5 bytes longer.
    let slack = if top.kind == b'C' { 5 } else { 0 };
    if top.size + slack != b.len() as u64 {
        return Err(format!(
            "declared size {} (+{slack}) differs from file length {}",
            top.size,
            b.len()
        ));
    }
    if top.kind == b'C' {
        let count = u16::from_le_bytes(b[72..74].try_into().unwrap()) as usize;
        if spans.len() != count + 1 {
            return Err(format!(
                "container declares {count} packs, {} could be located",
                spans.len() - 1
            ));
        }
    }
    for s in &spans {
        let a = s.start as usize;
        let e = (s.start + s.size) as usize + if s.kind == b'C' { 5 } else { 0 };
        let head = &b[a..a + 64];
        let tail: Vec<u8> = b[e - 64..e].iter().rev().copied().collect();
        if head != &tail[..] {
            return Err(format!(
                "tail of pack '{}' at {} is not the mirror of its header",
                s.kind as char, s.start
            ));
        }
    }
    Ok(())
}
