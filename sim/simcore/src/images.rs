//! The fixed grid of small images plus seeded larger ones, shared by the stored-byte fault checks.

use crate::gen::*;
use crate::prng::Rng;
use crate::Tier;
use std::sync::Arc;

fn contents_small(rng: &mut Rng, n: usize, max_len: usize, hint: Hint, packs: u16) -> Vec<ContentSpec> {
    (0..n)
        .map(|i| {
            let len = gen_len(rng, max_len);
            let flavor = *rng.pick(&[Flavor::Constant, Flavor::Text, Flavor::Random]);
            ContentSpec {
                bytes: Arc::new(gen_bytes(rng, i, len, flavor)),
                hint,
                src: SrcKind::Cursor,
                pack: 1 + (i as u16 % packs),
            }
        })
        .collect()
}

/// The image whose big indexed value store the pinned tree cannot read back (see below).
pub const UNREADABLE_STORE_IMAGE: &str = "indexed-store-tail-above-64KiB-loose-none";

/// Deterministic list of images for a seed and tier. F-flavour images keep every pack's
/// contents on one route (all raw or all compressed) so that creation with one worker is
/// deterministic (see DESIGN.md 2.7).
pub fn grid(seed: u64, tier: Tier) -> Vec<(String, Logical)> {
    let mut out = Vec::new();
    let packagings = [
        Packaging::Loose,
        Packaging::Concat,
        Packaging::BasicOne,
        Packaging::BasicTwo,
        Packaging::BasicNoConcat,
    ];
    let sizes: &[usize] = &[1, 5, 40];
    let mut k = 0u64;
    for packaging in packagings {
        for comp in Comp::ALL_DEFAULT {
            for &n in sizes {
                let mut rng = Rng::derive(seed, "grid", k);
                k += 1;
                let hint = if comp == Comp::None || rng.chance(1, 3) {
                    Hint::No
                } else {
                    Hint::Yes
                };
                let max_len = if n >= 40 { 40 } else { 200 };
                let logical = Logical {
                    comp,
                    packaging,
                    n_packs: 1,
                    contents: contents_small(&mut rng, n, max_len, hint, 1),
                    schema: SchemaSpec {
                        key_prefix: *rng.pick(&[0usize, 1, 2, 5]),
                        store: *rng.pick(&[StoreKind::Plain, StoreKind::Indexed]),
                        variants: rng.chance(1, 2),
                        key_pad: 0,
                    },
                    dedup: false,
                    aux_seed: rng.next_u64(),
                    opts: Default::default(),
                };
                out.push((
                    format!("g-{}-{}-{}", packaging.name(), comp.name(), n),
                    logical,
                ));
            }
        }
    }
    // multi-pack loose / concat containers (2..4 content packs)
    for (j, packs) in [2u16, 3, 4].into_iter().enumerate() {
        for packaging in [Packaging::Loose, Packaging::Concat] {
            let mut rng = Rng::derive(seed, "grid-multipack", k);
            k += 1;
            let comp = Comp::ALL_DEFAULT[(j + 1) % 4];
            let logical = Logical {
                comp,
                packaging,
                n_packs: packs,
                contents: contents_small(&mut rng, 3 * packs as usize, 120, Hint::Yes, packs),
                schema: SchemaSpec {
                    key_prefix: 2,
                    store: StoreKind::Plain,
                    variants: true,
                    key_pad: 0,
                },
                dedup: false,
                aux_seed: rng.next_u64(),
                opts: Default::default(),
            };
            let mut logical = logical;
            logical.opts.shuffle_manifest = j % 2 == 1 || packaging == Packaging::Concat;
            out.push((format!("m-{}-{}-p{}", packaging.name(), comp.name(), packs), logical));
        }
    }
    // content pack ids are chosen by the application and need not be contiguous ({1, 2, 5}), and
    // the directory pack need not be the first pack the manifest lists
    for (j, packaging) in [Packaging::Loose, Packaging::Concat].into_iter().enumerate() {
        let mut rng = Rng::derive(seed, "grid-sparse-ids", k);
        k += 1;
        let comp = if j == 0 { Comp::Lz4(3) } else { Comp::None };
        let mut contents = contents_small(&mut rng, 7, 100, if j == 0 { Hint::Yes } else { Hint::No }, 3);
        for c in contents.iter_mut() {
            if c.pack == 3 {
                c.pack = 5;
            }
        }
        let logical = Logical {
            comp,
            packaging,
            n_packs: 5,
            contents,
            schema: SchemaSpec {
                key_prefix: 2,
                store: StoreKind::Plain,
                variants: j == 1,
                key_pad: 0,
            },
            dedup: false,
            aux_seed: rng.next_u64(),
            opts: LogicalOpts {
                absent_ids: 0b01100,
                dir_not_first: true,
                shuffle_manifest: j == 1,
                ..Default::default()
            },
        };
        out.push((format!("m-{}-{}-sparse-ids-dir-not-first", packaging.name(), comp.name()), logical));
    }
    // an "alternative" content pack (second pack with the id of pack 1), a duplicated index name,
    // and a concatenated container whose loose source files still sit at the recorded locations
    for (j, (tag, packaging, opts)) in [
        ("alternative-pack", Packaging::Loose, LogicalOpts { alternative_of_pack1: true, ..Default::default() }),
        ("alternative-pack", Packaging::Concat, LogicalOpts { alternative_of_pack1: true, dup_index_name: true, ..Default::default() }),
        ("loose-beside", Packaging::Concat, LogicalOpts { keep_loose_beside: true, ..Default::default() }),
        ("dup-index-name", Packaging::Loose, LogicalOpts { dup_index_name: true, ..Default::default() }),
    ]
    .into_iter()
    .enumerate()
    {
        let mut rng = Rng::derive(seed, "grid-format-freedoms", k);
        k += 1;
        let comp = [Comp::None, Comp::Zstd(5), Comp::Lz4(3), Comp::None][j];
        let logical = Logical {
            comp,
            packaging,
            n_packs: 2,
            contents: contents_small(&mut rng, 6, 90, if comp == Comp::None { Hint::No } else { Hint::Yes }, 2),
            schema: SchemaSpec {
                key_prefix: 1,
                store: StoreKind::Plain,
                variants: false,
                key_pad: 0,
            },
            dedup: false,
            aux_seed: rng.next_u64(),
            opts,
        };
        out.push((format!("m-{}-{}-{tag}", packaging.name(), comp.name()), logical));
    }
    // packs that can only be found by uuid inside the file at hand (every recorded location is
    // empty), and a container that stores one pack twice
    for (j, (tag, opts)) in [
        ("emptyloc", LogicalOpts { empty_locations: true, ..Default::default() }),
        ("dup", LogicalOpts { concat_dup: true, ..Default::default() }),
    ]
    .into_iter()
    .enumerate()
    {
        let mut rng = Rng::derive(seed, "grid-concat-variants", k);
        k += 1;
        let packs = 3 - j as u16;
        let comp = if j == 0 { Comp::None } else { Comp::Zstd(5) };
        let logical = Logical {
            comp,
            packaging: Packaging::Concat,
            n_packs: packs,
            contents: contents_small(&mut rng, 3 * packs as usize, 100, Hint::Yes, packs),
            schema: SchemaSpec {
                key_prefix: 1,
                store: StoreKind::Indexed,
                variants: false,
                key_pad: 0,
            },
            dedup: false,
            aux_seed: rng.next_u64(),
            opts,
        };
        out.push((format!("m-concat-{tag}-{}-p{packs}", comp.name()), logical));
    }
    // directory pack and value store above the 4 KiB mmap threshold
    for (j, packaging) in [Packaging::Loose, Packaging::BasicOne].into_iter().enumerate() {
        let mut rng = Rng::derive(seed, "grid-bigdir", k);
        k += 1;
        let comp = if j == 0 { Comp::Zstd(5) } else { Comp::None };
        let logical = Logical {
            comp,
            packaging,
            n_packs: 1,
            contents: contents_small(&mut rng, 60, 30, Hint::Yes, 1),
            schema: SchemaSpec {
                key_prefix: 1,
                store: if j == 0 { StoreKind::Plain } else { StoreKind::Indexed },
                variants: false,
                key_pad: 90,
            },
            dedup: false,
            aux_seed: rng.next_u64(),
            opts: Default::default(),
        };
        out.push((format!("bigdir-{}-{}", packaging.name(), comp.name()), logical));
    }
    // content-info table above 4 KiB (>= 1023 contents) read straight from the file
    {
        let mut rng = Rng::derive(seed, "grid-manycontents", k);
        k += 1;
        let n = 1100;
        let contents: Vec<ContentSpec> = (0..n)
            .map(|i| ContentSpec {
                bytes: Arc::new(gen_bytes(&mut rng, i, 1 + i % 3, Flavor::Constant)),
                hint: Hint::No,
                src: SrcKind::Cursor,
                pack: 1,
            })
            .collect();
        let logical = Logical {
            comp: Comp::None,
            packaging: Packaging::Loose,
            n_packs: 1,
            contents,
            schema: SchemaSpec {
                key_prefix: 0,
                store: StoreKind::Plain,
                variants: false,
                key_pad: 0,
            },
            dedup: false,
            aux_seed: rng.next_u64(),
            // the checksum of its content-info block straddles a page boundary of the file
            opts: LogicalOpts {
                align_last_block_crc_to_page: true,
                ..Default::default()
            },
        };
        out.push(("many-contents-loose-none".to_string(), logical));
    }
    // one CRC-protected block above 16 MiB (a plain value store of 72 keys of 250 000 bytes): the
    // size class of real archives' entry and value stores, where "too large to bring into
    // memory at once" paths would be taken
    {
        let mut rng = Rng::derive(seed, "grid-hugevalues", k);
        let n = 72;
        let contents: Vec<ContentSpec> = (0..n)
            .map(|i| ContentSpec {
                bytes: Arc::new(gen_bytes(&mut rng, i, 1 + i % 5, Flavor::Constant)),
                hint: Hint::No,
                src: SrcKind::Cursor,
                pack: 1,
            })
            .collect();
        let logical = Logical {
            comp: Comp::None,
            packaging: Packaging::Loose,
            n_packs: 1,
            contents,
            schema: SchemaSpec {
                key_prefix: 1,
                store: StoreKind::Plain,
                variants: false,
                key_pad: 250_000,
            },
            dedup: false,
            aux_seed: rng.next_u64(),
            opts: Default::default(),
        };
        out.push(("huge-values-loose-none".to_string(), logical));
    }
    // an indexed value store whose offset table alone exceeds 64 KiB (22 000 distinct keys). The
    // pinned tree writes it with a tail size truncated to 16 bits and cannot read the keys back
    // (a round-trip defect under C02, not claimed): the image is not required to read back as
    // its model says. Thorough tier, C05 only (it takes most of a minute to build). It is here so that whatever does read is compared once damaged - a later
    // version that reads such stores has to verify them too.
    if tier == Tier::Thorough {
        let mut rng = Rng::derive(seed, "grid-bigindexed", k);
        let n = 22_000;
        let contents: Vec<ContentSpec> = (0..n)
            .map(|i| ContentSpec {
                bytes: Arc::new(gen_bytes(&mut rng, i, 1, Flavor::Constant)),
                hint: Hint::No,
                src: SrcKind::Cursor,
                pack: 1,
            })
            .collect();
        let logical = Logical {
            comp: Comp::None,
            packaging: Packaging::Loose,
            n_packs: 1,
            contents,
            schema: SchemaSpec {
                key_prefix: 0,
                store: StoreKind::Indexed,
                variants: false,
                key_pad: 0,
            },
            dedup: false,
            aux_seed: rng.next_u64(),
            opts: Default::default(),
        };
        out.push((UNREADABLE_STORE_IMAGE.to_string(), logical));
    }
    if tier == Tier::Thorough {
        // seeded larger images
        for j in 0..96u64 {
            let mut rng = Rng::derive(seed, "grid-seeded", j);
            let mut p = GenParams::small();
            p.max_contents = 30;
            p.max_len = 9000;
            p.max_packs = 3;
            let logical = gen_logical(&mut rng, &p);
            out.push((format!("s{j}-{}-{}", logical.packaging.name(), logical.comp.name()), logical));
        }
    }
    out
}
