//! splitmix64 / xoshiro256** with labelled sub-streams: one integer decides everything.

#[derive(Clone, Debug)]
pub struct Rng {
    s: [u64; 4],
}

fn splitmix(x: &mut u64) -> u64 {
    *x = x.wrapping_add(0x9E3779B97F4A7C15);
    let mut z = *x;
    z = (z ^ (z >> 30)).wrapping_mul(0xBF58476D1CE4E5B9);
    z = (z ^ (z >> 27)).wrapping_mul(0x94D049BB133111EB);
    z ^ (z >> 31)
}

pub fn hash_label(seed: u64, label: &str, idx: u64) -> u64 {
    // FNV-1a over the label, mixed with seed and index through splitmix
    let mut h: u64 = 0xcbf29ce484222325;
    for b in label.as_bytes() {
        h ^= *b as u64;
        h = h.wrapping_mul(0x100000001b3);
    }
    let mut x = seed ^ h.rotate_left(17) ^ idx.wrapping_mul(0xD6E8FEB86659FD93);
    let a = splitmix(&mut x);
    let b = splitmix(&mut x);
    a ^ b.rotate_left(29)
}

impl Rng {
    pub fn new(seed: u64) -> Self {
        let mut x = seed;
        let s = [
            splitmix(&mut x),
            splitmix(&mut x),
            splitmix(&mut x),
            splitmix(&mut x),
        ];
        Self { s }
    }

    /// Independent sub-stream: adding draws to one label never shifts another.
    pub fn derive(seed: u64, label: &str, idx: u64) -> Self {
        Self::new(hash_label(seed, label, idx))
    }

    pub fn next_u64(&mut self) -> u64 {
        let s = &mut self.s;
        let result = s[1].wrapping_mul(5).rotate_left(7).wrapping_mul(9);
        let t = s[1] << 17;
        s[2] ^= s[0];
        s[3] ^= s[1];
        s[1] ^= s[2];
        s[0] ^= s[3];
        s[2] ^= t;
        s[3] = s[3].rotate_left(45);
        result
    }

    /// uniform in [0, n); n == 0 gives 0
    pub fn below(&mut self, n: u64) -> u64 {
        if n == 0 {
            return 0;
        }
        // multiply-shift; bias is irrelevant here
        ((self.next_u64() as u128 * n as u128) >> 64) as u64
    }

    /// uniform in [lo, hi] inclusive
    pub fn range(&mut self, lo: u64, hi: u64) -> u64 {
        debug_assert!(hi >= lo);
        lo + self.below(hi - lo + 1)
    }

    pub fn usize_below(&mut self, n: usize) -> usize {
        self.below(n as u64) as usize
    }

    /// true with probability num/den
    pub fn chance(&mut self, num: u64, den: u64) -> bool {
        self.below(den) < num
    }

    pub fn pick<'a, T>(&mut self, items: &'a [T]) -> &'a T {
        &items[self.usize_below(items.len())]
    }

    pub fn fill(&mut self, buf: &mut [u8]) {
        for chunk in buf.chunks_mut(8) {
            let v = self.next_u64().to_le_bytes();
            chunk.copy_from_slice(&v[..chunk.len()]);
        }
    }

    pub fn bytes(&mut self, n: usize) -> Vec<u8> {
        let mut v = vec![0u8; n];
        self.fill(&mut v);
        v
    }

    pub fn shuffle<T>(&mut self, v: &mut [T]) {
        for i in (1..v.len()).rev() {
            let j = self.usize_below(i + 1);
            v.swap(i, j);
        }
    }
}
