//! Process plumbing: worker fan-out (one process per partition of the case list) and batch
//! children whose death or silence is an observation, not a harness crash.

use std::io::{BufRead, BufReader, Write};
use std::process::{Child, Command, Stdio};
use std::sync::mpsc;
use std::time::Duration;

pub fn n_workers() -> usize {
    std::env::var("VERIF_WORKERS")
        .ok()
        .and_then(|s| s.parse().ok())
        .unwrap_or_else(|| {
            std::thread::available_parallelism()
                .map(|n| n.get())
                .unwrap_or(8)
                .min(16)
        })
        .max(1)
}

pub struct WorkerOutput {
    pub index: usize,
    pub lines: Vec<String>,
    pub ok: bool,
    pub status: String,
    /// the worker printed nothing for `VERIF_STALL_S` seconds and was killed: whatever it was
    /// doing (announced by its last line) does not come back
    pub stalled: bool,
}

/// Start `n` copies of the current executable with the given arguments (plus the worker index
/// and count), wait for all, and return their stdout lines. stderr is inherited.
pub fn fan_out(n: usize, args: &[String]) -> Vec<WorkerOutput> {
    let exe = std::env::current_exe().expect("current_exe");
    let mut children: Vec<(usize, Child)> = Vec::new();
    for i in 0..n {
        let mut cmd = Command::new(&exe);
        cmd.args(args)
            .arg(format!("--worker={i}/{n}"))
            .stdin(Stdio::null())
            .stdout(Stdio::piped())
            .stderr(Stdio::piped());
        let child = cmd.spawn().expect("spawn worker");
        children.push((i, child));
    }
    // read all outputs concurrently (workers may produce more than a pipe buffer)
    let mut handles = Vec::new();
    for (i, mut child) in children {
        handles.push(std::thread::spawn(move || {
            let out = child.stdout.take().unwrap();
            // forward the worker's stderr, minus the engine's per-panic chatter
            let err = child.stderr.take().unwrap();
            let verbose = std::env::var("VERIF_SHOW_PANICS").is_ok();
            let err_thread = std::thread::spawn(move || {
                for line in BufReader::new(err).lines().map_while(Result::ok) {
                    let noise = line.starts_with("Task failed, serializing schedule")
                        || line.starts_with("test panicked in task")
                        || line.starts_with("failing schedule")
                        || line.starts_with("Test deadlocked, and ")
                        || line.starts_with("pass that string to");
                    if verbose || !noise {
                        eprintln!("{line}");
                    }
                }
            });
            // progress watchdog (only when VERIF_STALL_S is set): a worker announces every
            // execution before it starts it; silence for that long means the execution blocks on
            // something no simulated step can resolve
            let stall_s = std::env::var("VERIF_STALL_S").ok().and_then(|s| s.parse::<u64>().ok()).filter(|d| *d > 0);
            let last_line = std::sync::Arc::new(std::sync::Mutex::new(std::time::Instant::now()));
            let finished = std::sync::Arc::new(std::sync::atomic::AtomicBool::new(false));
            let stalled = std::sync::Arc::new(std::sync::atomic::AtomicBool::new(false));
            if let Some(limit) = stall_s {
                let (last_line, finished, stalled) = (std::sync::Arc::clone(&last_line), std::sync::Arc::clone(&finished), std::sync::Arc::clone(&stalled));
                let pid = child.id();
                std::thread::spawn(move || loop {
                    std::thread::sleep(std::time::Duration::from_millis(500));
                    if finished.load(std::sync::atomic::Ordering::Relaxed) {
                        return;
                    }
                    if last_line.lock().unwrap().elapsed().as_secs() >= limit {
                        stalled.store(true, std::sync::atomic::Ordering::Relaxed);
                        unsafe {
                            libc::kill(pid as i32, libc::SIGKILL);
                        }
                        return;
                    }
                });
            }
            let mut lines: Vec<String> = Vec::new();
            for l in BufReader::new(out).lines() {
                *last_line.lock().unwrap() = std::time::Instant::now();
                lines.push(l.unwrap_or_default());
            }
            finished.store(true, std::sync::atomic::Ordering::Relaxed);
            // a worker that outlives the deadline is a harness problem (e.g. code under test that
            // blocks on a primitive the simulator does not model), never a verdict
            let deadline = std::env::var("VERIF_WORKER_DEADLINE_S")
                .ok()
                .and_then(|s| s.parse::<u64>().ok())
                .filter(|d| *d > 0);
            let pid = child.id();
            let done = std::sync::Arc::new(std::sync::atomic::AtomicBool::new(false));
            if let Some(d) = deadline {
                let done = std::sync::Arc::clone(&done);
                std::thread::spawn(move || {
                    let start = std::time::Instant::now();
                    while start.elapsed().as_secs() < d {
                        if done.load(std::sync::atomic::Ordering::Relaxed) {
                            return;
                        }
                        std::thread::sleep(std::time::Duration::from_millis(500));
                    }
                    if !done.load(std::sync::atomic::Ordering::Relaxed) {
                        eprintln!("HARNESS-ERROR: worker process {pid} exceeded the deadline of {d} s and is killed");
                        unsafe {
                            libc::kill(pid as i32, libc::SIGKILL);
                        }
                    }
                });
            }
            let status = child.wait().expect("wait worker");
            done.store(true, std::sync::atomic::Ordering::Relaxed);
            let _ = err_thread.join();
            WorkerOutput {
                index: i,
                lines,
                ok: status.success(),
                status: format!("{status}"),
                stalled: stalled.load(std::sync::atomic::Ordering::Relaxed),
            }
        }));
    }
    let mut outs: Vec<WorkerOutput> = handles.into_iter().map(|h| h.join().unwrap()).collect();
    outs.sort_by_key(|o| o.index);
    outs
}

pub fn parse_worker_arg(args: &[String]) -> Option<(usize, usize)> {
    for a in args {
        if let Some(rest) = a.strip_prefix("--worker=") {
            let (i, n) = rest.split_once('/')?;
            return Some((i.parse().ok()?, n.parse().ok()?));
        }
    }
    None
}

// ------------------------------------------------------------------------------------------

#[derive(Clone, Debug, PartialEq, Eq)]
pub enum CaseOutcome {
    /// the child finished the case and reported this payload
    Done(String),
    /// the child process ended while working on the case
    Died {
        how: String,
        /// panic messages printed by the child's panic hook during this case
        panics: Vec<String>,
    },
    /// the child went silent past the watchdog and was killed
    Hung { panics: Vec<String> },
}

/// Child side of the protocol.
pub mod child {
    use std::io::Write;

    pub fn install_panic_hook() {
        std::panic::set_hook(Box::new(|info| {
            let loc = info
                .location()
                .map(|l| format!("{}:{}", l.file(), l.line()))
                .unwrap_or_else(|| "?".into());
            let msg = if let Some(s) = info.payload().downcast_ref::<&str>() {
                s.to_string()
            } else if let Some(s) = info.payload().downcast_ref::<String>() {
                s.clone()
            } else {
                "?".into()
            };
            let thread = std::thread::current()
                .name()
                .unwrap_or("unnamed")
                .to_string();
            let one_line: String = msg.chars().map(|c| if c == '\n' { ' ' } else { c }).collect();
            let stdout = std::io::stdout();
            let mut lock = stdout.lock();
            let _ = writeln!(lock, "PANIC thread={thread} at={loc} msg={one_line}");
            // (triage aid, never part of a record: VERIF_BACKTRACE=<file> appends the call stack)
            if let Ok(f) = std::env::var("VERIF_BACKTRACE") {
                if let Ok(mut f) = std::fs::OpenOptions::new().create(true).append(true).open(f) {
                    let _ = writeln!(f, "PANIC at={loc} msg={one_line}\n{}", std::backtrace::Backtrace::force_capture());
                }
            }
            let _ = lock.flush();
        }));
    }

    /// While this value lives, standard error is the write end of a pipe nobody reads from any
    /// more (`tool 2>&1 | head -1`, a supervisor that closed its end): every write to it fails
    /// with EPIPE. A library must not care; `eprintln!` panics.
    pub struct BrokenStderr {
        saved: i32,
    }

    impl BrokenStderr {
        pub fn install() -> Self {
            unsafe {
                let mut fds = [0i32; 2];
                if libc::pipe(fds.as_mut_ptr()) != 0 {
                    crate::harness_error("pipe() failed");
                }
                libc::close(fds[0]);
                let saved = libc::dup(2);
                if saved < 0 || libc::dup2(fds[1], 2) < 0 {
                    crate::harness_error("dup of standard error failed");
                }
                libc::close(fds[1]);
                BrokenStderr { saved }
            }
        }
    }

    impl Drop for BrokenStderr {
        fn drop(&mut self) {
            unsafe {
                libc::dup2(self.saved, 2);
                libc::close(self.saved);
            }
        }
    }

    pub fn begin(i: u64) {
        let stdout = std::io::stdout();
        let mut lock = stdout.lock();
        let _ = writeln!(lock, "BEGIN {i}");
        let _ = lock.flush();
    }

    pub fn end(i: u64, payload: &str) {
        let one_line: String = payload
            .chars()
            .map(|c| if c == '\n' { ' ' } else { c })
            .collect();
        let stdout = std::io::stdout();
        let mut lock = stdout.lock();
        let _ = writeln!(lock, "END {i} {one_line}");
        let _ = lock.flush();
    }
}

fn describe_status(st: &std::process::ExitStatus) -> String {
    use std::os::unix::process::ExitStatusExt;
    if let Some(sig) = st.signal() {
        let name = match sig {
            6 => "SIGABRT",
            7 => "SIGBUS",
            9 => "SIGKILL",
            11 => "SIGSEGV",
            4 => "SIGILL",
            8 => "SIGFPE",
            25 => "SIGXFSZ",
            _ => "signal",
        };
        format!("signal:{name}({sig})")
    } else {
        format!("exit:{}", st.code().unwrap_or(-1))
    }
}

/// Run cases `lo..hi` in children of the current executable. `make_args(lo, hi)` gives the
/// arguments of a child that handles `lo..hi` in order, printing `BEGIN i` / `END i payload`.
/// When a child dies or hangs on case `i`, that is recorded and a new child resumes at `i+1`.
pub fn run_batch(
    make_args: &dyn Fn(u64, u64) -> Vec<String>,
    lo: u64,
    hi: u64,
    watchdog: Duration,
) -> Vec<(u64, CaseOutcome)> {
    let exe = std::env::current_exe().expect("current_exe");
    run_batch_with(&exe, make_args, lo, hi, watchdog)
}

/// Same as `run_batch` with an explicit child executable (e.g. the debug-profile build).
pub fn run_batch_with(
    exe: &std::path::Path,
    make_args: &dyn Fn(u64, u64) -> Vec<String>,
    lo: u64,
    hi: u64,
    watchdog: Duration,
) -> Vec<(u64, CaseOutcome)> {
    let mut results: Vec<(u64, CaseOutcome)> = Vec::with_capacity((hi - lo) as usize);
    let mut next = lo;
    while next < hi {
        let mut child = Command::new(exe)
            .args(make_args(next, hi))
            .stdin(Stdio::null())
            .stdout(Stdio::piped())
            .stderr(Stdio::null())
            .spawn()
            .expect("spawn batch child");
        let out = child.stdout.take().unwrap();
        let (tx, rx) = mpsc::channel::<Option<String>>();
        let reader = std::thread::spawn(move || {
            for line in BufReader::new(out).lines() {
                match line {
                    Ok(l) => {
                        if tx.send(Some(l)).is_err() {
                            return;
                        }
                    }
                    Err(_) => break,
                }
            }
            let _ = tx.send(None);
        });
        let mut current: Option<u64> = None;
        let mut panics: Vec<String> = Vec::new();
        let mut hung = false;
        loop {
            match rx.recv_timeout(watchdog) {
                Ok(Some(line)) => {
                    if let Some(rest) = line.strip_prefix("BEGIN ") {
                        current = rest.trim().parse().ok();
                        panics.clear();
                    } else if let Some(rest) = line.strip_prefix("END ") {
                        let (i, payload) = rest.split_once(' ').unwrap_or((rest, ""));
                        let i: u64 = i.trim().parse().unwrap_or(u64::MAX);
                        let mut payload = payload.to_string();
                        if !panics.is_empty() {
                            payload.push_str(" |panics: ");
                            payload.push_str(&panics.join(" ; "));
                        }
                        results.push((i, CaseOutcome::Done(payload)));
                        next = i + 1;
                        current = None;
                        panics.clear();
                    } else if let Some(rest) = line.strip_prefix("PANIC ") {
                        panics.push(rest.to_string());
                    }
                }
                Ok(None) => break,
                Err(mpsc::RecvTimeoutError::Timeout) => {
                    hung = true;
                    let _ = child.kill();
                    break;
                }
                Err(mpsc::RecvTimeoutError::Disconnected) => break,
            }
        }
        let status = child.wait().expect("wait child");
        let _ = reader.join();
        // drain anything left
        while let Ok(Some(line)) = rx.try_recv() {
            if let Some(rest) = line.strip_prefix("PANIC ") {
                panics.push(rest.to_string());
            }
        }
        if let Some(i) = current {
            let outcome = if hung {
                CaseOutcome::Hung {
                    panics: panics.clone(),
                }
            } else {
                CaseOutcome::Died {
                    how: describe_status(&status),
                    panics: panics.clone(),
                }
            };
            results.push((i, outcome));
            next = i + 1;
        } else if hung {
            // silent between cases: treat the next case as hung to make progress
            results.push((next, CaseOutcome::Hung { panics: vec![] }));
            next += 1;
        } else if !status.success() && next < hi {
            // died before BEGIN of the next case (e.g. while loading the image)
            results.push((
                next,
                CaseOutcome::Died {
                    how: format!("{} (before BEGIN)", describe_status(&status)),
                    panics: panics.clone(),
                },
            ));
            next += 1;
        } else if next < hi && status.success() {
            // child exited cleanly without finishing: protocol error
            crate::harness_error(&format!(
                "batch child exited cleanly before finishing cases (next={next}, hi={hi})"
            ));
        }
    }
    results
}

pub fn flush_stdout() {
    let _ = std::io::stdout().flush();
}
