//! Evidence files, replay files, known findings.

use serde_json::{json, Map, Value};
use std::collections::{BTreeMap, BTreeSet};
use std::path::{Path, PathBuf};

pub fn verif_dir() -> PathBuf {
    // /verif unless a background run from a snapshot says otherwise
    PathBuf::from(std::env::var("VERIF_DIR").unwrap_or_else(|_| "/verif".into()))
}

pub struct Evidence {
    pub property_id: String,
    pub tier: String,
    pub seed: u64,
    pub level: String,
    pub evaluations: u64,
    pub distinct: BTreeSet<u64>,
    pub rule: String,
    pub samples: Vec<Value>,
    pub faults_fired: BTreeMap<String, u64>,
    pub probes: BTreeMap<String, u64>,
    pub extra: Map<String, Value>,
    pub assumptions: Vec<String>,
    pub violations: u64,
    pub exhaustive: Option<bool>,
    start: std::time::Instant,
}

impl Evidence {
    pub fn new(property_id: &str, tier: &str, seed: u64, level: &str) -> Self {
        Self {
            property_id: property_id.into(),
            tier: tier.into(),
            seed,
            level: level.into(),
            evaluations: 0,
            distinct: BTreeSet::new(),
            rule: String::new(),
            samples: vec![],
            faults_fired: BTreeMap::new(),
            probes: BTreeMap::new(),
            extra: Map::new(),
            assumptions: vec![],
            violations: 0,
            exhaustive: None,
            start: std::time::Instant::now(),
        }
    }

    pub fn fired(&mut self, kind: &str, n: u64) {
        *self.faults_fired.entry(kind.to_string()).or_insert(0) += n;
    }

    pub fn probe(&mut self, site: &str, n: u64) {
        *self.probes.entry(site.to_string()).or_insert(0) += n;
    }

    pub fn sample(&mut self, v: Value) {
        if self.samples.len() < 8 {
            self.samples.push(v);
        }
    }

    pub fn wall_s(&self) -> f64 {
        self.start.elapsed().as_secs_f64()
    }

    pub fn write(&self) -> std::io::Result<PathBuf> {
        if std::env::var("VERIF_NO_EVIDENCE").is_ok() {
            // self-tests run the checks with other seeds: they must not replace the evidence
            return Ok(PathBuf::new());
        }
        let wall = self.wall_s();
        let mut coverage = Map::new();
        coverage.insert("evaluations".into(), json!(self.evaluations));
        coverage.insert("distinct_nontrivial".into(), json!(self.distinct.len() as u64));
        coverage.insert("rule".into(), json!(self.rule));
        coverage.insert("samples".into(), Value::Array(self.samples.clone()));
        coverage.insert("faults_fired".into(), json!(self.faults_fired));
        coverage.insert("probes".into(), json!(self.probes));
        coverage.insert(
            "runs_per_hour".into(),
            json!(if wall > 0.0 {
                (self.evaluations as f64 / wall * 3600.0) as u64
            } else {
                0
            }),
        );
        if let Some(e) = self.exhaustive {
            coverage.insert("exhaustive".into(), json!(e));
        }
        for (k, v) in &self.extra {
            coverage.insert(k.clone(), v.clone());
        }
        let doc = json!({
            "property_id": self.property_id,
            "tier": self.tier,
            "seed": self.seed,
            "level": self.level,
            "coverage": Value::Object(coverage),
            "assumptions": self.assumptions,
            "wall_s": (wall * 1000.0).round() / 1000.0,
            "violations": self.violations,
        });
        let dir = verif_dir().join("evidence");
        std::fs::create_dir_all(&dir)?;
        let path = dir.join(format!("{}.json", self.property_id));
        std::fs::write(&path, serde_json::to_string_pretty(&doc).unwrap() + "\n")?;
        Ok(path)
    }
}

/// Write a replay file and return its path.
pub fn write_replay(property_id: &str, seed: u64, case: &str, body: Value) -> PathBuf {
    let dir = verif_dir().join("replays");
    let _ = std::fs::create_dir_all(&dir);
    let safe: String = case
        .chars()
        .map(|c| if c.is_ascii_alphanumeric() || c == '-' { c } else { '_' })
        .collect();
    let path = dir.join(format!("{property_id}-{seed}-{safe}.json"));
    let _ = std::fs::write(&path, serde_json::to_string_pretty(&body).unwrap() + "\n");
    path
}

/// A known finding: a genuine defect recorded rather than repaired. Matching is by signature
/// substrings, never by property alone.
#[derive(Clone, Debug)]
pub struct KnownFinding {
    pub property: String,
    pub id: String,
    pub status: String, // "open" | "fixed"
    /// every one of these must be a substring of the violation signature
    pub signature_all: Vec<String>,
    pub what: String,
}

pub fn load_known_findings() -> Vec<KnownFinding> {
    let path = verif_dir().join("known_findings.json");
    let Ok(text) = std::fs::read_to_string(&path) else {
        return vec![];
    };
    let v: Value = match serde_json::from_str(&text) {
        Ok(v) => v,
        Err(e) => crate::harness_error(&format!("known_findings.json does not parse: {e}")),
    };
    let mut out = vec![];
    for f in v["findings"].as_array().cloned().unwrap_or_default() {
        out.push(KnownFinding {
            property: f["property"].as_str().unwrap_or("").to_string(),
            id: f["id"].as_str().unwrap_or("").to_string(),
            status: f["status"].as_str().unwrap_or("open").to_string(),
            signature_all: f["signature_all"]
                .as_array()
                .map(|a| {
                    a.iter()
                        .filter_map(|s| s.as_str().map(|s| s.to_string()))
                        .collect()
                })
                .unwrap_or_default(),
            what: f["what"].as_str().unwrap_or("").to_string(),
        });
    }
    out
}

/// Returns the open known finding matching this violation signature, if any.
pub fn match_known<'a>(
    known: &'a [KnownFinding],
    property: &str,
    signature: &str,
) -> Option<&'a KnownFinding> {
    known.iter().find(|k| {
        k.property == property
            && k.status == "open"
            && !k.signature_all.is_empty()
            && k.signature_all.iter().all(|s| signature.contains(s.as_str()))
    })
}

/// Digest of a run's record set (order-normalised by the caller). Two runs of the same check with
/// the same seed must produce the same digest whatever the number of worker processes.
/// The same digest over records that are still JSON text (each is parsed and re-serialised, so
/// that the digest does not depend on how a worker happened to print it).
pub fn digest_record_lines<'a>(lines: impl Iterator<Item = &'a str>) -> String {
    let mut h = blake3::Hasher::new();
    for l in lines {
        let mut v: Value = serde_json::from_str(l).expect("a record line parses");
        drop_timing_dependent(&mut v);
        h.update(v.to_string().as_bytes());
        h.update(b"\n");
    }
    h.finalize().to_hex()[..16].to_string()
}

/// Observations that depend on real thread timing are reported under keys named
/// `timing_dependent`; they are judged, but they are not part of the deterministic record.
fn drop_timing_dependent(v: &mut Value) {
    match v {
        Value::Object(m) => {
            m.remove("timing_dependent");
            for (_, x) in m.iter_mut() {
                drop_timing_dependent(x);
            }
        }
        Value::Array(a) => a.iter_mut().for_each(drop_timing_dependent),
        _ => {}
    }
}

pub fn digest_records<'a>(lines: impl Iterator<Item = &'a Value>) -> String {
    let mut h = blake3::Hasher::new();
    for v in lines {
        h.update(v.to_string().as_bytes());
        h.update(b"\n");
    }
    h.finalize().to_hex()[..16].to_string()
}
