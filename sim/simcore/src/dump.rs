//! Logical dump: walks the public reader API of a container and produces a flat, ordered list
//! of (path, leaf). It is the observation function of the fault checks.

use jubako as jbk;
use jubako::reader::{EntryTrait, MayMissPack, Range};
use jubako::Pack;
use std::io::Read;
use std::path::Path;

#[derive(Clone, Debug, PartialEq, Eq)]
pub enum Leaf {
    /// a structural value, rendered
    Val(String),
    /// content bytes: length and a 64-bit digest
    Bytes(u64, u64),
    /// the access returned an error value
    Err(String),
    /// pack reported missing, with its description
    Missing(String),
    /// "no such thing" (None)
    Absent,
}

impl Leaf {
    pub fn is_err(&self) -> bool {
        matches!(self, Leaf::Err(_))
    }
    pub fn short(&self) -> String {
        match self {
            Leaf::Val(s) => format!("={s}"),
            Leaf::Bytes(l, h) => format!("bytes[{l}]#{h:016x}"),
            Leaf::Err(e) => format!("Err({e})"),
            Leaf::Missing(m) => format!("Missing({m})"),
            Leaf::Absent => "Absent".into(),
        }
    }
}

#[derive(Clone, Debug, Default, PartialEq, Eq)]
pub struct Dump(pub Vec<(String, Leaf)>);

impl Dump {
    pub fn push(&mut self, path: impl Into<String>, leaf: Leaf) {
        self.0.push((path.into(), leaf));
    }
    pub fn get(&self, path: &str) -> Option<&Leaf> {
        self.0.iter().find(|(p, _)| p == path).map(|(_, l)| l)
    }
    /// digest of the whole dump (for determinism logs)
    pub fn digest(&self) -> u64 {
        let mut h = blake3::Hasher::new();
        for (p, l) in &self.0 {
            h.update(p.as_bytes());
            h.update(b"\0");
            h.update(l.short().as_bytes());
            h.update(b"\n");
        }
        u64::from_le_bytes(h.finalize().as_bytes()[..8].try_into().unwrap())
    }
    pub fn to_text(&self) -> String {
        let mut s = String::new();
        for (p, l) in &self.0 {
            s.push_str(p);
            s.push(' ');
            s.push_str(&l.short());
            s.push('\n');
        }
        s
    }
}

/// What to look for (the reader API has no "list everything" call, so the walk is driven by
/// names and counts the model knows; counts are probed a little beyond the model).
#[derive(Clone, Debug)]
pub struct DumpSpec {
    pub index_names: Vec<String>,
    pub prop_names: Vec<&'static str>,
    /// probe pack ids 0..=max_pack_id+1
    pub max_pack_id: u16,
    /// probe this many content ids beyond each pack's reported count
    pub beyond: u32,
    /// read content bytes (false: sizes only)
    pub read_bytes: bool,
    /// hard cap on entries / contents walked (damaged counts may be huge)
    pub cap: u32,
    /// number of indexes the directory holds (probed by position)
    pub index_count: usize,
}

impl DumpSpec {
    pub fn for_model(m: &crate::gen::Model) -> Self {
        let mut prop_names = vec!["key", "addr", "len", "sig"];
        if m.variants {
            prop_names.push("x");
            prop_names.push("tag");
        }
        let mut index_names: Vec<String> = vec![];
        for (n, _, _) in &m.indexes {
            if !index_names.contains(n) {
                index_names.push(n.clone());
            }
        }
        index_names.push("no-such-index".into());
        Self {
            index_names,
            prop_names,
            max_pack_id: m.n_packs,
            beyond: 1,
            read_bytes: true,
            cap: (m.contents.len() as u32 + 4) * 4,
            index_count: m.indexes.len(),
        }
    }
}

pub fn err_class(e: &jbk::Error) -> String {
    // class only: messages may carry addresses or map-order dependent details
    match &**e {
        jbk::ErrorKind::Io(io) => format!("Io:{:?}", io.kind()),
        jbk::ErrorKind::Corrupted(_) => "Corrupted".into(),
        jbk::ErrorKind::Format(_) => "Format".into(),
        jbk::ErrorKind::Version(_) => "Version".into(),
        jbk::ErrorKind::NotAJbk => "NotAJbk".into(),
        jbk::ErrorKind::MissingFeature(_) => "MissingFeature".into(),
    }
}

fn io_err_class(e: &std::io::Error) -> String {
    format!("Io:{:?}", e.kind())
}

pub fn digest_bytes(b: &[u8]) -> u64 {
    u64::from_le_bytes(blake3::hash(b).as_bytes()[..8].try_into().unwrap())
}

/// Rendering of an entry value; arrays above 1 KiB are rendered as length and digest (images
/// with a value store above 16 MiB would otherwise produce dumps of hundreds of megabytes).
pub fn render_value(v: &jbk::Value) -> String {
    match v {
        jbk::Value::Array(a) if a.len() > 1024 => {
            format!("Array(long[{}]#{:016x})", a.len(), digest_bytes(a))
        }
        _ => format!("{v:?}"),
    }
}

pub fn pack_info_string(i: &jbk::reader::PackInfo) -> String {
    pack_info_str(i)
}

fn pack_info_str(i: &jbk::reader::PackInfo) -> String {
    format!(
        "uuid={} size={} id={} kind={:?} group={} free={} check@{:?} loc={:?}",
        i.uuid,
        i.pack_size.into_u64(),
        i.pack_id.into_u64(),
        i.pack_kind,
        i.pack_group,
        i.free_data_id.into_u64(),
        i.check_info_pos,
        i.pack_location.as_str()
    )
}

fn check_leaf(r: jbk::Result<bool>) -> Leaf {
    match r {
        Ok(b) => Leaf::Val(b.to_string()),
        Err(e) => Leaf::Err(err_class(&e)),
    }
}

pub fn read_region(region: &jbk::reader::ByteRegion) -> Result<Vec<u8>, String> {
    let size = region.size().into_u64();
    if size > (1 << 30) {
        return Err("TooBig".into());
    }
    let mut v = Vec::with_capacity(size as usize);
    match region.stream().read_to_end(&mut v) {
        Ok(_) => Ok(v),
        Err(e) => Err(io_err_class(&e)),
    }
}

/// Dump of the manifest as seen through `tools::open_pack` + `ManifestPack`.
pub fn dump_manifest(entry: &Path, out: &mut Dump) {
    let cp = match jbk::tools::open_pack(entry) {
        Ok(c) => c,
        Err(e) => {
            // neither the manifest nor the file's own listing can be read
            out.push("manifest", Leaf::Err(err_class(&e)));
            out.push("file", Leaf::Err(err_class(&e)));
            return;
        }
    };
    file_listing(&cp, out);
    let reader = match cp.get_manifest_pack_reader() {
        Ok(Some(r)) => r,
        Ok(None) => {
            // "no pack of this file says it is a manifest": every consumer in jubako
            // (Container::new, tools::set_location, jbk locate) turns this answer into a Format
            // error, and so does this dump (it stands for those consumers)
            out.push("manifest", Leaf::Err("Format:no-manifest-pack".into()));
            return;
        }
        Err(e) => {
            out.push("manifest", Leaf::Err(err_class(&e)));
            return;
        }
    };
    let m = match jbk::reader::ManifestPack::new(reader) {
        Ok(m) => m,
        Err(e) => {
            out.push("manifest", Leaf::Err(err_class(&e)));
            return;
        }
    };
    out.push("manifest/uuid", Leaf::Val(m.uuid().to_string()));
    out.push("manifest/pack_count", Leaf::Val(m.pack_count().into_u64().to_string()));
    out.push(
        "manifest/dirinfo",
        Leaf::Val(pack_info_str(m.get_directory_pack_info())),
    );
    for (i, info) in m.get_pack_infos().iter().enumerate() {
        out.push(format!("manifest/packinfo[{i}]"), Leaf::Val(pack_info_str(info)));
    }
    out.push("manifest/check", check_leaf(m.check()));
    manifest_extras("manifest", &m, out);
}

/// The container pack itself: what it says about the packs it stores.
fn file_listing(cp: &jbk::reader::ContainerPack, out: &mut Dump) {
    out.push("file/pack_count", Leaf::Val(cp.pack_count().into_u64().to_string()));
    for idx in 0..cp.pack_count().into_u64().min(64) as u16 {
        let u = cp.get_pack_uuid(jbk::PackId::from(idx));
        let by_idx = cp.get_pack_reader_from_idx(jbk::PackId::from(idx)).is_some();
        let by_uuid = cp.get_pack_reader(&u).is_some();
        out.push(format!("file/pack[{idx}]"), Leaf::Val(format!("uuid={u} by_idx={by_idx} by_uuid={by_uuid}")));
    }
    out.push("file/iter_count", Leaf::Val(cp.iter().count().to_string()));
}

/// What a manifest says beyond the pack descriptions: its own free data, and for every listed
/// pack the check info and the free data it stores, by id and by uuid.
fn manifest_extras(base: &str, m: &jbk::reader::ManifestPack, out: &mut Dump) {
    out.push(format!("{base}/free"), Leaf::Val(format!("{:?}", &m.get_free_data()[..])));
    let opt_bytes = |r: jbk::Result<Option<&[u8]>>| match r {
        Ok(Some(b)) => Leaf::Val(format!("{b:?}")),
        Ok(None) => Leaf::Absent,
        Err(e) => Leaf::Err(err_class(&e)),
    };
    let mut infos: Vec<&jbk::reader::PackInfo> = vec![m.get_directory_pack_info()];
    infos.extend(m.get_pack_infos().iter());
    for (i, info) in infos.iter().enumerate().take(80) {
        out.push(
            format!("{base}/stored_check_info[{i}]"),
            match m.get_pack_check_info(info.uuid) {
                Ok(Some(ci)) => Leaf::Val(format!("{ci:?}")),
                Ok(None) => Leaf::Absent,
                Err(e) => Leaf::Err(err_class(&e)),
            },
        );
        out.push(format!("{base}/pack_free_by_uuid[{i}]"), opt_bytes(m.get_pack_free_data_uuid(info.uuid)));
        out.push(format!("{base}/pack_free_by_id[{i}]"), opt_bytes(m.get_pack_free_data(info.pack_id)));
        if i > 0 {
            out.push(
                format!("{base}/info_by_uuid[{i}]"),
                match m.get_content_pack_info_uuid(info.uuid) {
                    Some(x) => Leaf::Val(pack_info_str(x)),
                    None => Leaf::Absent,
                },
            );
            out.push(
                format!("{base}/info_by_id[{i}]"),
                match m.get_content_pack_info(info.pack_id) {
                    Some(x) => Leaf::Val(pack_info_str(x)),
                    None => Leaf::Absent,
                },
            );
        }
    }
    let nobody = uuid::Uuid::from_bytes([0xEE; 16]);
    out.push(
        format!("{base}/stored_check_info[unknown-uuid]"),
        match m.get_pack_check_info(nobody) {
            Ok(Some(ci)) => Leaf::Val(format!("{ci:?}")),
            Ok(None) => Leaf::Absent,
            Err(e) => Leaf::Err(err_class(&e)),
        },
    );
    out.push(format!("{base}/pack_free_by_uuid[unknown-uuid]"), opt_bytes(m.get_pack_free_data_uuid(nobody)));
}

/// Full logical dump through `reader::Container`.
pub fn dump_container(entry: &Path, spec: &DumpSpec) -> Dump {
    dump_container_moved(entry, spec, None)
}

/// With `moved_to`: once the container is open its file is renamed to `moved_to` (the name it
/// was opened under no longer exists; the open descriptor still shows the same file), everything
/// is read, and the file gets its name back before the second entry point is asked.
pub fn dump_container_moved(entry: &Path, spec: &DumpSpec, moved_to: Option<&Path>) -> Dump {
    let mut out = Dump::default();
    let container = match jbk::reader::Container::new(entry) {
        Ok(c) => c,
        Err(e) => {
            out.push("open", Leaf::Err(err_class(&e)));
            // the other entry point to the same file (`tools::open_pack`, used by check / locate /
            // concat tools) is asked all the same
            dump_manifest(entry, &mut out);
            return out;
        }
    };
    out.push("open", Leaf::Val("ok".into()));
    if let Some(to) = moved_to {
        std::fs::rename(entry, to).unwrap_or_else(|e| crate::harness_error(&format!("cannot move the open container file: {e}")));
    }
    let r = std::panic::catch_unwind(std::panic::AssertUnwindSafe(|| dump_opened(&container, spec, &mut out)));
    drop(container);
    if let Some(to) = moved_to {
        std::fs::rename(to, entry).unwrap_or_else(|e| crate::harness_error(&format!("cannot move the container file back: {e}")));
    }
    if let Err(p) = r {
        std::panic::resume_unwind(p);
    }
    dump_manifest(entry, &mut out);
    out
}

pub fn dump_opened(container: &jbk::reader::Container, spec: &DumpSpec, out: &mut Dump) {
    out.push("uuid", Leaf::Val(container.uuid().to_string()));
    out.push(
        "pack_count",
        Leaf::Val(container.pack_count().into_u64().to_string()),
    );
    // packs and contents
    for pid in 0..=spec.max_pack_id + 1 {
        let base = format!("pack[{pid}]");
        match container.get_pack(jbk::PackId::from(pid)) {
            Err(e) => out.push(base.clone(), Leaf::Err(err_class(&e))),
            Ok(None) => out.push(base.clone(), Leaf::Absent),
            Ok(Some(MayMissPack::MISSING(info))) => {
                out.push(base.clone(), Leaf::Missing(pack_info_str(&info)))
            }
            Ok(Some(MayMissPack::FOUND(p))) => {
                out.push(format!("{base}/uuid"), Leaf::Val(p.uuid().to_string()));
                out.push(format!("{base}/kind"), Leaf::Val(format!("{:?}", p.kind())));
                out.push(
                    format!("{base}/size"),
                    Leaf::Val(p.size().into_u64().to_string()),
                );
                let count = p.get_content_count().into_u64() as u32;
                out.push(format!("{base}/content_count"), Leaf::Val(count.to_string()));
                out.push(format!("{base}/check"), check_leaf(p.check()));
                let upto = count.saturating_add(spec.beyond).min(spec.cap);
                for cid in 0..upto {
                    let cbase = format!("{base}/content[{cid}]");
                    let addr =
                        jbk::ContentAddress::new(jbk::PackId::from(pid), jbk::ContentIdx::from(cid));
                    match container.get_bytes(addr) {
                        Err(e) => out.push(cbase, Leaf::Err(err_class(&e))),
                        Ok(None) => out.push(cbase, Leaf::Absent),
                        Ok(Some(MayMissPack::MISSING(info))) => {
                            out.push(cbase, Leaf::Missing(pack_info_str(&info)))
                        }
                        Ok(Some(MayMissPack::FOUND(None))) => {
                            out.push(format!("{cbase}/size"), Leaf::Absent)
                        }
                        Ok(Some(MayMissPack::FOUND(Some(region)))) => {
                            out.push(
                                format!("{cbase}/size"),
                                Leaf::Val(region.size().into_u64().to_string()),
                            );
                            if spec.read_bytes {
                                match read_region(&region) {
                                    Ok(v) => out.push(
                                        format!("{cbase}/bytes"),
                                        Leaf::Bytes(v.len() as u64, digest_bytes(&v)),
                                    ),
                                    Err(e) => out.push(format!("{cbase}/bytes"), Leaf::Err(e)),
                                }
                                // the same bytes through the other entry point: one get_slice over
                                // the whole range (it waits for the decoder in its own way)
                                let size = region.size().into_u64();
                                if size <= 1 << 20 {
                                    match region.get_slice(jbk::Offset::zero(), size as usize) {
                                        Ok(v) => out.push(
                                            format!("{cbase}/bytes_by_slice"),
                                            Leaf::Bytes(v.len() as u64, digest_bytes(&v)),
                                        ),
                                        Err(e) => out.push(format!("{cbase}/bytes_by_slice"), Leaf::Err(err_class(&e))),
                                    }
                                }
                            }
                        }
                    }
                }
            }
        }
    }
    // the directory pack's own free data, and its indexes by position (the same objects as by name)
    let dp = container.get_directory_pack();
    out.push("dirpack/free", Leaf::Val(format!("{:?}", dp.get_free_data())));
    for i in 0..spec.index_count {
        out.push(
            format!("dirpack/index_at[{i}]"),
            match dp.get_index((i as u32).into()) {
                Ok(ix) => Leaf::Val(format!("count={} store={}", ix.size().into_u64(), ix.get_store_id().into_u64())),
                Err(e) => Leaf::Err(err_class(&e)),
            },
        );
    }
    // indexes and entries
    for name in &spec.index_names {
        let ibase = format!("index[{name}]");
        let index = match container.get_index_for_name(name) {
            Err(e) => {
                out.push(ibase, Leaf::Err(err_class(&e)));
                continue;
            }
            Ok(None) => {
                out.push(ibase, Leaf::Absent);
                continue;
            }
            Ok(Some(i)) => i,
        };
        let count = index.count().into_u64() as u32;
        out.push(format!("{ibase}/count"), Leaf::Val(count.to_string()));
        out.push(
            format!("{ibase}/offset"),
            Leaf::Val(index.offset().into_u64().to_string()),
        );
        out.push(
            format!("{ibase}/store"),
            Leaf::Val(index.get_store_id().into_u64().to_string()),
        );
        let store = match index.get_store(container.get_entry_storage()) {
            Ok(s) => s,
            Err(e) => {
                out.push(format!("{ibase}/entries"), Leaf::Err(err_class(&e)));
                continue;
            }
        };
        let builder = match jbk::reader::builder::AnyBuilder::new(
            store,
            container.get_value_storage().as_ref(),
        ) {
            Ok(b) => b,
            Err(e) => {
                out.push(format!("{ibase}/entries"), Leaf::Err(err_class(&e)));
                continue;
            }
        };
        let upto = count.saturating_add(1).min(spec.cap);
        for eid in 0..upto {
            let ebase = format!("{ibase}/entries/e[{eid}]");
            let entry = match index.get_entry(&builder, jbk::EntryIdx::from(eid)) {
                Err(e) => {
                    out.push(ebase, Leaf::Err(err_class(&e)));
                    continue;
                }
                Ok(None) => {
                    out.push(ebase, Leaf::Absent);
                    continue;
                }
                Ok(Some(e)) => e,
            };
            match entry.get_variant_id() {
                Err(e) => out.push(format!("{ebase}/variant"), Leaf::Err(err_class(&e))),
                Ok(v) => out.push(
                    format!("{ebase}/variant"),
                    Leaf::Val(format!("{:?}", v.map(|v| v.into_u64()))),
                ),
            }
            for pn in &spec.prop_names {
                let pbase = format!("{ebase}/{pn}");
                match entry.get_value(pn) {
                    Err(e) => out.push(pbase, Leaf::Err(err_class(&e))),
                    Ok(None) => out.push(pbase, Leaf::Absent),
                    Ok(Some(raw)) => match raw.get() {
                        Err(e) => out.push(pbase, Leaf::Err(err_class(&e))),
                        Ok(v) => out.push(pbase, Leaf::Val(render_value(&v))),
                    },
                }
            }
        }
    }
    out.push("check", check_leaf(container.check()));
}

/// Compare a pristine dump with the dump of a damaged copy (the C05 oracle).
/// Returns a list of human-readable differences that are NOT allowed.
pub fn structural_diff(pristine: &Dump, damaged: &Dump) -> Vec<String> {
    structural_diff_opts(pristine, damaged, false)
}

/// As `structural_diff`; with `missing_ok` a pack reported as missing (with its description)
/// covers everything below it - for cases in which a pack file was taken away on purpose.
pub fn structural_diff_opts(pristine: &Dump, damaged: &Dump, missing_ok: bool) -> Vec<String> {
    use std::collections::HashMap;
    let dmap: HashMap<&str, &Leaf> = damaged.0.iter().map(|(p, l)| (p.as_str(), l)).collect();
    let pmap: HashMap<&str, &Leaf> = pristine.0.iter().map(|(p, l)| (p.as_str(), l)).collect();
    let covered_by_err = |path: &str, map: &HashMap<&str, &Leaf>| -> bool {
        // an Err at a proper prefix (a/b for a/b/c) covers the subtree
        let mut p = path;
        loop {
            if let Some(l) = map.get(p) {
                if l.is_err() || (missing_ok && matches!(l, Leaf::Missing(_))) {
                    return true;
                }
            }
            match p.rfind('/') {
                Some(i) => p = &p[..i],
                None => break,
            }
        }
        // a dump nested under a prefix ("after_rewrite/...") has its own "open" leaf
        if let Some((prefix, _)) = path.split_once('/') {
            if map.get(format!("{prefix}/open").as_str()).map(|l| l.is_err()).unwrap_or(false) {
                return true;
            }
        }
        map.get("open").map(|l| l.is_err()).unwrap_or(false)
    };
    let mut diffs = Vec::new();
    let check_not_true = |map: &HashMap<&str, &Leaf>, path: &str| -> bool {
        !matches!(map.get(path), Some(Leaf::Val(v)) if v == "true")
    };
    // integrity-check answers are not structure: they are expected to change (C04's subject)
    let is_check = |path: &str| path == "check" || path.ends_with("/check");
    for (path, pl) in &pristine.0 {
        if is_check(path) {
            continue;
        }
        if pl.is_err() {
            // the undamaged container already answers this question with an error: there is no
            // written value to compare a later answer with (see DESIGN 10.3, get_pack_check_info)
            continue;
        }
        match dmap.get(path.as_str()) {
            None => {
                if !covered_by_err(path, &dmap) {
                    diffs.push(format!("{path}: was {} now gone without an error", pl.short()));
                }
            }
            Some(dl) => {
                if *dl == pl || dl.is_err() || (missing_ok && matches!(dl, Leaf::Missing(_))) {
                    continue;
                }
                if let (Leaf::Bytes(..), Leaf::Bytes(..)) = (pl, dl) {
                    // content bytes may differ only if the integrity checks fail: the check of the
                    // pack that holds the content and the check of the container
                    let pack_check = path
                        .find("/content[")
                        .map(|i| format!("{}/check", &path[..i]))
                        .unwrap_or_default();
                    let pack_ok = check_not_true(&dmap, &pack_check);
                    let container_ok = check_not_true(&dmap, "check");
                    if pack_ok && container_ok {
                        continue;
                    }
                    diffs.push(format!(
                        "{path}: content bytes differ ({} -> {}) while {} still answers true",
                        pl.short(),
                        dl.short(),
                        if !pack_ok { "the pack's check" } else { "Container::check" }
                    ));
                    continue;
                }
                diffs.push(format!("{path}: {} -> {}", pl.short(), dl.short()));
            }
        }
    }
    for (path, dl) in &damaged.0 {
        if pmap.contains_key(path.as_str()) || dl.is_err() || is_check(path) || (missing_ok && matches!(dl, Leaf::Missing(_))) {
            continue;
        }
        diffs.push(format!("{path}: new leaf {} not in the pristine dump", dl.short()));
    }
    diffs
}

/// Validate a pristine dump against the generator's model. Returns mismatches.
pub fn check_against_model(d: &Dump, m: &crate::gen::Model, contents_readable: bool) -> Vec<String> {
    let mut bad = Vec::new();
    let mut expect = |path: String, want: Leaf| match d.get(&path) {
        Some(l) if *l == want => {}
        other => bad.push(format!(
            "{path}: expected {} got {}",
            want.short(),
            other.map(|l| l.short()).unwrap_or("nothing".into())
        )),
    };
    expect("open".into(), Leaf::Val("ok".into()));
    expect("check".into(), Leaf::Val("true".into()));
    expect("pack_count".into(), Leaf::Val((m.pack_ids().len() as u64 + 1 + m.extra_listed as u64).to_string()));
    for p in 1..=m.n_packs {
        if m.is_absent(p) {
            // an id the manifest does not list answers "no such pack"
            expect(format!("pack[{p}]"), Leaf::Absent);
            continue;
        }
        if m.unavailable & (1 << (p - 1)) != 0 {
            // a pack that can be found nowhere is reported missing, with its description
            match d.get(&format!("pack[{p}]")) {
                Some(Leaf::Missing(_)) => {}
                // (reported through `expect` so that there is one collector of mismatches)
                _ => expect(format!("pack[{p}]"), Leaf::Missing("<the pack's description>".into())),
            }
            continue;
        }
        if !contents_readable {
            break;
        }
        expect(
            format!("pack[{p}]/content_count"),
            Leaf::Val(m.pack_counts[p as usize].to_string()),
        );
        expect(format!("pack[{p}]/check"), Leaf::Val("true".into()));
        // one beyond the count must be "no such content"
        expect(
            format!("pack[{p}]/content[{}]/size", m.pack_counts[p as usize]),
            Leaf::Absent,
        );
    }
    expect(format!("pack[{}]", m.n_packs + 1), Leaf::Absent);
    for c in &m.contents {
        if !contents_readable {
            break;
        }
        if m.unavailable & (1 << (c.pack - 1)) != 0 {
            continue;
        }
        let base = format!("pack[{}]/content[{}]", c.pack, c.content_id);
        expect(format!("{base}/size"), Leaf::Val(c.bytes.len().to_string()));
        expect(
            format!("{base}/bytes"),
            Leaf::Bytes(c.bytes.len() as u64, digest_bytes(&c.bytes)),
        );
        if c.bytes.len() <= 1 << 20 {
            expect(
                format!("{base}/bytes_by_slice"),
                Leaf::Bytes(c.bytes.len() as u64, digest_bytes(&c.bytes)),
            );
        }
    }
    let mut seen_names: Vec<&str> = vec![];
    for (name, offset, count) in &m.indexes {
        if seen_names.contains(&name.as_str()) {
            continue;
        }
        seen_names.push(name.as_str());
        expect(format!("index[{name}]/count"), Leaf::Val(count.to_string()));
        expect(format!("index[{name}]/offset"), Leaf::Val(offset.to_string()));
        for i in 0..*count {
            let e = &m.entries[(*offset + i) as usize];
            let base = format!("index[{name}]/entries/e[{i}]");
            let c = &m.contents[e.content];
            expect(
                format!("{base}/key"),
                Leaf::Val(render_value(&jbk::Value::Array(e.key.as_slice().into()))),
            );
            expect(
                format!("{base}/addr"),
                Leaf::Val(format!(
                    "{:?}",
                    jbk::Value::Content(jbk::ContentAddress::new(
                        c.pack.into(),
                        c.content_id.into()
                    ))
                )),
            );
            expect(
                format!("{base}/len"),
                Leaf::Val(format!("{:?}", jbk::Value::Unsigned(e.len))),
            );
            expect(
                format!("{base}/sig"),
                Leaf::Val(format!("{:?}", jbk::Value::Signed(e.sig))),
            );
            expect(
                format!("{base}/variant"),
                Leaf::Val(format!("{:?}", e.variant.map(|v| v as u64))),
            );
            match e.variant {
                Some(0) => expect(
                    format!("{base}/x"),
                    Leaf::Val(format!("{:?}", jbk::Value::Unsigned(e.x))),
                ),
                Some(_) => expect(
                    format!("{base}/tag"),
                    Leaf::Val(format!("{:?}", jbk::Value::Array(e.tag.as_slice().into()))),
                ),
                None => {}
            }
        }
        expect(format!("index[{name}]/entries/e[{count}]"), Leaf::Absent);
    }
    expect("index[no-such-index]".into(), Leaf::Absent);
    bad
}

/// Direct open of one pack (cut out of a file at a span the harness knows from the pristine
/// layout) through the pack type's own public constructor, bypassing `Container` and the
/// container-pack reader (which verify the 64-byte header themselves before handing over).
pub fn dump_direct(label: &str, bytes: &[u8], kind: u8, out: &mut Dump) {
    let base = format!("direct[{label}]");
    let reader: jbk::Reader = bytes.to_vec().into();
    let common = |out: &mut Dump, p: &dyn Pack| {
        out.push(format!("{base}/uuid"), Leaf::Val(p.uuid().to_string()));
        out.push(format!("{base}/kind"), Leaf::Val(format!("{:?}", p.kind())));
        out.push(format!("{base}/size"), Leaf::Val(p.size().into_u64().to_string()));
        out.push(format!("{base}/vendor"), Leaf::Val(format!("{:?}", p.app_vendor_id())));
        out.push(format!("{base}/version"), Leaf::Val(format!("{:?}", p.version())));
        out.push(format!("{base}/check"), check_leaf(p.check()));
    };
    match kind {
        b'm' => match jbk::reader::ManifestPack::new(reader) {
            Err(e) => out.push(base.clone(), Leaf::Err(err_class(&e))),
            Ok(m) => {
                common(out, &m);
                out.push(format!("{base}/pack_count"), Leaf::Val(m.pack_count().into_u64().to_string()));
                out.push(format!("{base}/dirinfo"), Leaf::Val(pack_info_str(m.get_directory_pack_info())));
                for (i, info) in m.get_pack_infos().iter().enumerate() {
                    out.push(format!("{base}/packinfo[{i}]"), Leaf::Val(pack_info_str(info)));
                }
                manifest_extras(&base, &m, out);
            }
        },
        b'd' => match jbk::reader::DirectoryPack::new(reader) {
            Err(e) => out.push(base.clone(), Leaf::Err(err_class(&e))),
            Ok(d) => {
                common(out, &d);
                out.push(format!("{base}/free"), Leaf::Val(format!("{:?}", d.get_free_data())));
            }
        },
        b'c' => match jbk::reader::ContentPack::new(reader) {
            Err(e) => out.push(base.clone(), Leaf::Err(err_class(&e))),
            Ok(c) => {
                common(out, &c);
                out.push(
                    format!("{base}/content_count"),
                    Leaf::Val(c.get_content_count().into_u64().to_string()),
                );
                out.push(format!("{base}/free"), Leaf::Val(format!("{:?}", c.get_free_data())));
            }
        },
        _ => {}
    }
}
