//! Stored-byte faults applied to a file set between creation and open.

use crate::prng::Rng;

#[derive(Clone, Debug, PartialEq, Eq)]
pub enum Fault {
    /// XOR one byte with a mask
    Flip { file: usize, pos: u64, mask: u8 },
    Zero { file: usize, pos: u64, len: u64 },
    Overwrite { file: usize, pos: u64, len: u64, seed: u64 },
    Truncate { file: usize, len: u64 },
    Append { file: usize, len: u64, seed: u64 },
    Prepend { file: usize, len: u64, seed: u64 },
    Empty { file: usize },
    Garbage { file: usize, len: u64, seed: u64 },
    /// replace file `file` by a copy of file `other`
    SwapWith { file: usize, other: usize },
    /// misdirected write: `len` bytes found at `src` are also written at `dst` (same file)
    CopyRange { file: usize, src: u64, dst: u64, len: u64 },
    /// XOR one byte inside a CRC-protected block and store a fresh, valid CRC-32C for the block
    /// (`block_start .. block_start + block_len` is the data, the 4 CRC bytes follow): damage a
    /// block checksum cannot see, only the pack's global hash can
    FlipFix { file: usize, pos: u64, mask: u8, block_start: u64, block_len: u64 },
    /// the file is not there at all (a pack that is legitimately unavailable); only used next to
    /// damage in another file
    Remove { file: usize },
    Multi(Vec<Fault>),
}

/// What `Fault::Remove` leaves in the in-memory file set: the writer of the case directory
/// deletes the file instead of writing it.
pub const REMOVED: &[u8] = b"\x00verif:this-file-is-removed\x00";

impl Fault {
    pub fn kind(&self) -> &'static str {
        match self {
            Fault::Flip { .. } => "flip",
            Fault::Zero { .. } => "zero",
            Fault::Overwrite { .. } => "overwrite",
            Fault::Truncate { .. } => "truncate",
            Fault::Append { .. } => "append",
            Fault::Prepend { .. } => "prepend",
            Fault::Empty { .. } => "empty",
            Fault::Garbage { .. } => "garbage",
            Fault::SwapWith { .. } => "swap",
            Fault::FlipFix { .. } => "flip-with-fresh-block-crc",
            Fault::CopyRange { .. } => "misdirected-write",
            Fault::Remove { .. } => "file-removed",
            Fault::Multi(_) => "multi",
        }
    }

    pub fn encode(&self) -> String {
        match self {
            Fault::Flip { file, pos, mask } => format!("flip:{file}:{pos}:{mask}"),
            Fault::Zero { file, pos, len } => format!("zero:{file}:{pos}:{len}"),
            Fault::Overwrite { file, pos, len, seed } => format!("over:{file}:{pos}:{len}:{seed}"),
            Fault::Truncate { file, len } => format!("trunc:{file}:{len}"),
            Fault::Append { file, len, seed } => format!("append:{file}:{len}:{seed}"),
            Fault::Prepend { file, len, seed } => format!("prepend:{file}:{len}:{seed}"),
            Fault::Empty { file } => format!("empty:{file}"),
            Fault::Garbage { file, len, seed } => format!("garbage:{file}:{len}:{seed}"),
            Fault::SwapWith { file, other } => format!("swap:{file}:{other}"),
            Fault::CopyRange { file, src, dst, len } => format!("copy:{file}:{src}:{dst}:{len}"),
            Fault::FlipFix { file, pos, mask, block_start, block_len } => format!("flipfix:{file}:{pos}:{mask}:{block_start}:{block_len}"),
            Fault::Remove { file } => format!("remove:{file}"),
            Fault::Multi(v) => format!(
                "multi:{}",
                v.iter().map(|f| f.encode()).collect::<Vec<_>>().join("+")
            ),
        }
    }

    pub fn decode(s: &str) -> Option<Fault> {
        if let Some(rest) = s.strip_prefix("multi:") {
            return Some(Fault::Multi(
                rest.split('+').map(Fault::decode).collect::<Option<Vec<_>>>()?,
            ));
        }
        let parts: Vec<&str> = s.split(':').collect();
        let n = |i: usize| -> Option<u64> { parts.get(i)?.parse().ok() };
        Some(match *parts.first()? {
            "flip" => Fault::Flip {
                file: n(1)? as usize,
                pos: n(2)?,
                mask: n(3)? as u8,
            },
            "zero" => Fault::Zero {
                file: n(1)? as usize,
                pos: n(2)?,
                len: n(3)?,
            },
            "over" => Fault::Overwrite {
                file: n(1)? as usize,
                pos: n(2)?,
                len: n(3)?,
                seed: n(4)?,
            },
            "trunc" => Fault::Truncate {
                file: n(1)? as usize,
                len: n(2)?,
            },
            "append" => Fault::Append {
                file: n(1)? as usize,
                len: n(2)?,
                seed: n(3)?,
            },
            "prepend" => Fault::Prepend {
                file: n(1)? as usize,
                len: n(2)?,
                seed: n(3)?,
            },
            "empty" => Fault::Empty {
                file: n(1)? as usize,
            },
            "garbage" => Fault::Garbage {
                file: n(1)? as usize,
                len: n(2)?,
                seed: n(3)?,
            },
            "remove" => Fault::Remove {
                file: n(1)? as usize,
            },
            "copy" => Fault::CopyRange {
                file: n(1)? as usize,
                src: n(2)?,
                dst: n(3)?,
                len: n(4)?,
            },
            "flipfix" => Fault::FlipFix {
                file: n(1)? as usize,
                pos: n(2)?,
                mask: n(3)? as u8,
                block_start: n(4)?,
                block_len: n(5)?,
            },
            "swap" => Fault::SwapWith {
                file: n(1)? as usize,
                other: n(2)? as usize,
            },
            _ => return None,
        })
    }

    /// Files touched by this fault.
    pub fn files(&self) -> Vec<usize> {
        match self {
            Fault::Flip { file, .. }
            | Fault::Zero { file, .. }
            | Fault::Overwrite { file, .. }
            | Fault::Truncate { file, .. }
            | Fault::Append { file, .. }
            | Fault::Prepend { file, .. }
            | Fault::Empty { file }
            | Fault::Garbage { file, .. }
            | Fault::SwapWith { file, .. }
            | Fault::CopyRange { file, .. }
            | Fault::Remove { file }
            | Fault::FlipFix { file, .. } => vec![*file],
            Fault::Multi(v) => {
                let mut f: Vec<usize> = v.iter().flat_map(|x| x.files()).collect();
                f.sort();
                f.dedup();
                f
            }
        }
    }

    /// Apply to an in-memory copy of the file set. Returns true when at least one stored byte
    /// really changed (a fault that changes nothing has not "fired").
    pub fn apply(&self, files: &mut [Vec<u8>]) -> bool {
        match self {
            Fault::Flip { file, pos, mask } => {
                let f = &mut files[*file];
                if (*pos as usize) < f.len() && *mask != 0 {
                    f[*pos as usize] ^= mask;
                    true
                } else {
                    false
                }
            }
            Fault::Zero { file, pos, len } => {
                let f = &mut files[*file];
                let a = (*pos as usize).min(f.len());
                let b = ((*pos + *len) as usize).min(f.len());
                let changed = f[a..b].iter().any(|x| *x != 0);
                f[a..b].fill(0);
                changed
            }
            Fault::Overwrite { file, pos, len, seed } => {
                let f = &mut files[*file];
                let a = (*pos as usize).min(f.len());
                let b = ((*pos + *len) as usize).min(f.len());
                let mut rng = Rng::derive(*seed, "overwrite", 0);
                let new = rng.bytes(b - a);
                let changed = f[a..b] != new[..];
                f[a..b].copy_from_slice(&new);
                changed
            }
            Fault::Truncate { file, len } => {
                let f = &mut files[*file];
                if (*len as usize) < f.len() {
                    f.truncate(*len as usize);
                    true
                } else {
                    false
                }
            }
            Fault::Append { file, len, seed } => {
                let mut rng = Rng::derive(*seed, "append", 0);
                let extra = rng.bytes(*len as usize);
                files[*file].extend_from_slice(&extra);
                *len > 0
            }
            Fault::Prepend { file, len, seed } => {
                let mut rng = Rng::derive(*seed, "prepend", 0);
                let mut new = rng.bytes(*len as usize);
                new.extend_from_slice(&files[*file]);
                files[*file] = new;
                *len > 0
            }
            Fault::Empty { file } => {
                let changed = !files[*file].is_empty();
                files[*file].clear();
                changed
            }
            Fault::Garbage { file, len, seed } => {
                let mut rng = Rng::derive(*seed, "garbage", 0);
                files[*file] = rng.bytes(*len as usize);
                true
            }
            Fault::Remove { file } => {
                files[*file] = REMOVED.to_vec();
                true
            }
            Fault::CopyRange { file, src, dst, len } => {
                let f = &mut files[*file];
                let n = f.len();
                let (s0, d0) = ((*src as usize).min(n), (*dst as usize).min(n));
                let l = (*len as usize).min(n - s0).min(n - d0);
                let chunk: Vec<u8> = f[s0..s0 + l].to_vec();
                let changed = f[d0..d0 + l] != chunk[..];
                f[d0..d0 + l].copy_from_slice(&chunk);
                changed
            }
            Fault::FlipFix { file, pos, mask, block_start, block_len } => {
                let f = &mut files[*file];
                let (p, a, b) = (*pos as usize, *block_start as usize, (*block_start + *block_len) as usize);
                if *mask == 0 || p < a || p >= b || b + 4 > f.len() {
                    return false;
                }
                f[p] ^= mask;
                let crc = crc32c_jubako(&f[a..b]);
                f[b..b + 4].copy_from_slice(&crc.to_be_bytes());
                true
            }
            Fault::SwapWith { file, other } => {
                let o = files[*other].clone();
                let changed = files[*file] != o;
                files[*file] = o;
                changed
            }
            Fault::Multi(v) => {
                let mut any = false;
                for f in v {
                    any |= f.apply(files);
                }
                any
            }
        }
    }
}

/// CRC-32C as jubako stores it: polynomial 0x1EDC6F41, initial value 0xFFFFFFFF, not reflected,
/// no final xor, stored big-endian (re-implemented here so that crafted faults do not depend on
/// the code under test).
pub fn crc32c_jubako(data: &[u8]) -> u32 {
    let mut crc: u32 = 0xFFFF_FFFF;
    for byte in data {
        crc ^= (*byte as u32) << 24;
        for _ in 0..8 {
            crc = if crc & 0x8000_0000 != 0 { (crc << 1) ^ 0x1EDC_6F41 } else { crc << 1 };
        }
    }
    crc
}


/// Turn a manifest the library wrote into one "another writer" could have written: the reserved
/// `packGroup` byte (offset 35 of every pack description) gets a non-zero value, each touched
/// description gets a fresh block CRC and the manifest a fresh global hash (blake3 over the pack
/// up to its check block, with bytes 38..256 of every description read as zero). The result is a
/// valid manifest that the library's own creator can never produce. `file` holds the manifest
/// pack at `mspan`. The caller must verify the result with the library before using it.
pub fn foreign_writer_manifest(file: &mut [u8], mspan: &crate::layout::PackSpan) {
    let start = mspan.start as usize;
    for (k, slot) in mspan.info_slots.iter().enumerate() {
        let a = start + *slot as usize;
        file[a + 35] = [7u8, 0xF0, 1, 0x80][k % 4];
        let crc = crc32c_jubako(&file[a..a + 252]);
        file[a + 252..a + 256].copy_from_slice(&crc.to_be_bytes());
    }
    let end = start + mspan.check_info_pos as usize;
    let mut masked = file[start..end].to_vec();
    for slot in &mspan.info_slots {
        let a = *slot as usize;
        masked[a + 38..a + 256].fill(0);
    }
    let hash = blake3::hash(&masked);
    file[end] = 1; // blake3
    file[end + 1..end + 33].copy_from_slice(hash.as_bytes());
    let crc = crc32c_jubako(&file[end..end + 33]);
    file[end + 33..end + 37].copy_from_slice(&crc.to_be_bytes());
}
