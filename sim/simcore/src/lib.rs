//! Shared machinery of the jubako simulator: PRNG, seeded OS randomness, workload generator and
//! reference model, logical dump, evidence / replay / known-findings plumbing, worker fan-out.

pub mod dump;
pub mod fault;
pub mod layout;
pub mod gen;
pub mod images;
pub mod osrand;
pub mod proc;
pub mod prng;
pub mod report;

pub const DEFAULT_SEED: u64 = 20261004;

pub fn seed_from_env() -> u64 {
    std::env::var("VERIF_SEED")
        .ok()
        .and_then(|s| s.trim().parse::<u64>().ok())
        .unwrap_or(DEFAULT_SEED)
}

#[derive(Clone, Copy, Debug, PartialEq, Eq)]
pub enum Tier {
    Quick,
    Thorough,
}

impl Tier {
    pub fn name(self) -> &'static str {
        match self {
            Tier::Quick => "quick",
            Tier::Thorough => "thorough",
        }
    }
    pub fn parse(s: &str) -> Option<Tier> {
        match s {
            "quick" => Some(Tier::Quick),
            "thorough" => Some(Tier::Thorough),
            _ => None,
        }
    }
}

/// Scratch directory on tmpfs, unique per process, removed on drop.
pub struct Scratch {
    pub path: std::path::PathBuf,
}

impl Scratch {
    pub fn new(tag: &str) -> Self {
        let base = if std::path::Path::new("/dev/shm").is_dir() {
            "/dev/shm"
        } else {
            "/tmp"
        };
        let path = std::path::PathBuf::from(format!(
            "{base}/jbkverif-{}-{}",
            tag,
            std::process::id()
        ));
        let _ = std::fs::remove_dir_all(&path);
        std::fs::create_dir_all(&path).expect("create scratch dir");
        Self { path }
    }
    pub fn sub(&self, name: &str) -> std::path::PathBuf {
        let p = self.path.join(name);
        let _ = std::fs::remove_dir_all(&p);
        std::fs::create_dir_all(&p).expect("create scratch subdir");
        p
    }
}

impl Drop for Scratch {
    fn drop(&mut self) {
        let _ = std::fs::remove_dir_all(&self.path);
    }
}

/// Exit codes of every check binary.
pub const EXIT_OK: i32 = 0;
pub const EXIT_VIOLATION: i32 = 1;
pub const EXIT_HARNESS: i32 = 2;

pub fn harness_error(msg: &str) -> ! {
    use std::io::Write;
    // (standard error may be unusable on purpose, see proc::child::BrokenStderr)
    let _ = writeln!(std::io::stderr(), "HARNESS-ERROR: {msg}");
    let _ = writeln!(std::io::stdout(), "HARNESS-ERROR: {msg}");
    std::process::exit(EXIT_HARNESS)
}


/// An application that uses jubako may have a logger installed; `log::warn!(..)` and friends only
/// evaluate their arguments when one is. The simulator installs a sink at the most verbose level
/// that formats every record (so that whatever the arguments do - lock, index, unwrap - happens)
/// and drops it.
pub fn install_log_sink() {
    struct Sink;
    impl log::Log for Sink {
        fn enabled(&self, _: &log::Metadata) -> bool {
            true
        }
        fn log(&self, record: &log::Record) {
            let _ = format!("{}", record.args());
        }
        fn flush(&self) {}
    }
    static SINK: Sink = Sink;
    let _ = log::set_logger(&SINK);
    log::set_max_level(log::LevelFilter::Trace);
}

/// The repository's own command-line tool (`jbk`, src/bin/jbk), built by `./run` from /repo's
/// manifest into `<target>/jbk-cli`: the simulator drives it as a separate process, the way an
/// administrator would (`jbk check`, `jbk locate`). `VERIF_JBK_BIN` overrides the place.
pub fn jbk_cli() -> std::path::PathBuf {
    if let Ok(p) = std::env::var("VERIF_JBK_BIN") {
        return p.into();
    }
    let exe = std::env::current_exe().expect("current_exe");
    let p = exe
        .parent()
        .and_then(|p| p.parent())
        .map(|t| t.join("jbk-cli").join("release").join("jbk"))
        .unwrap_or_else(|| "/verif/sim/target/jbk-cli/release/jbk".into());
    if !p.is_file() {
        harness_error(&format!("{} is missing (./run builds it: cargo build --release --features build_bin,lz4,lzma --bin jbk)", p.display()));
    }
    p
}

/// Runs the command-line tool; returns (standard output, standard error, how it ended: "exit:N" or
/// "signal:N"). The child gets no input and a quiet environment.
pub fn run_jbk_cli(cli: &std::path::Path, args: &[&std::ffi::OsStr]) -> (String, String, String) {
    let out = std::process::Command::new(cli)
        .args(args)
        .stdin(std::process::Stdio::null())
        .env_remove("RUST_LOG")
        .env("RUST_BACKTRACE", "0")
        .output()
        .unwrap_or_else(|e| harness_error(&format!("cannot start {}: {e}", cli.display())));
    use std::os::unix::process::ExitStatusExt;
    let how = match (out.status.code(), out.status.signal()) {
        (Some(c), _) => format!("exit:{c}"),
        (None, Some(s)) => format!("signal:{s}"),
        _ => "unknown".to_string(),
    };
    (String::from_utf8_lossy(&out.stdout).to_string(), String::from_utf8_lossy(&out.stderr).to_string(), how)
}
