#!/bin/bash
# Confirm a seeded change independently: applies on /repo HEAD, builds, passes the existing test
# suite, and its demonstration fails with the change and passes without it.
#   verify_mutant.sh <src-dir containing patch.diff + demo.rs> <name>
# Uses a scratch worktree under /tmp/wtv/<name> and removes it afterwards.
set -u
src="$1"; name="$2"
wt=/tmp/wtv/$name
out="$src/verify.log"
: > "$out"
git -C /repo worktree remove --force "$wt" >/dev/null 2>&1
mkdir -p /tmp/wtv
git -C /repo worktree add -q --detach "$wt" HEAD || { echo "worktree failed" | tee -a "$out"; exit 2; }
cd "$wt" || exit 2
export CARGO_NET_OFFLINE=true CARGO_TARGET_DIR="$wt/target"
hdr=$(head -12 "$src/demo.rs")
if grep -qE "^(pub )?fn main\(" "$src/demo.rs"; then kind=example; dest=examples; else kind=test; dest=tests; fi
demo_name="demo_$(echo "$name" | tr 'A-Z-' 'a-z_')"
cp "$src/demo.rs" "$dest/$demo_name.rs"
run_demo() {
  if [ $kind = test ]; then timeout 900 cargo test --offline -j 6 --test "$demo_name" 2>&1 | tail -15
  else timeout 900 cargo run --offline -j 6 --example "$demo_name" 2>&1 | tail -15; fi
  return ${PIPESTATUS[0]}
}
echo "== demo on clean tree" >> "$out"
run_demo >> "$out" 2>&1; clean_rc=$?
echo "clean_rc=$clean_rc" >> "$out"
git apply "$src/patch.diff" || { echo "patch does not apply" >> "$out"; echo "RESULT $name APPLY-FAILED"; cd /; git -C /repo worktree remove --force "$wt"; exit 1; }
echo "== build with lz4,lzma" >> "$out"
cargo build --offline -j 6 --features lz4,lzma >> "$out" 2>&1; build_rc=$?
echo "== test suite with mutant" >> "$out"
mv "$dest/$demo_name.rs" /tmp/wtv/$demo_name.rs.keep
cargo test --offline -j 6 2>&1 | grep -E "^test result|FAILED|failed" >> "$out"; suite_rc=${PIPESTATUS[0]}
mv /tmp/wtv/$demo_name.rs.keep "$dest/$demo_name.rs"
echo "suite_rc=$suite_rc build_rc=$build_rc" >> "$out"
echo "== demo with mutant" >> "$out"
run_demo >> "$out" 2>&1; mut_rc=$?
echo "mut_rc=$mut_rc" >> "$out"
cd /
git -C /repo worktree remove --force "$wt"
if [ $clean_rc -eq 0 ] && [ $mut_rc -ne 0 ] && [ $suite_rc -eq 0 ] && [ $build_rc -eq 0 ]; then
  echo "RESULT $name CONFIRMED (clean demo ok, mutant demo fails rc=$mut_rc, suite passes)"
else
  echo "RESULT $name NOT-CONFIRMED clean_rc=$clean_rc mut_rc=$mut_rc suite_rc=$suite_rc build_rc=$build_rc"
fi
