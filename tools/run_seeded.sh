#!/bin/bash
# Run the checks against the seeded changes without touching /repo: a scratch worktree of /repo
# (/tmp/repo-mut) and a scratch copy of the simulator workspace pointing at it (/tmp/sim-mut).
#   tools/run_seeded.sh [name-filter]      e.g. tools/run_seeded.sh C07
# Prints one line per seeded change: CAUGHT / MISSED / OBSOLETE / APPLY-FAILED.
set -u
filter="${1:-}"
wt=/tmp/repo-mut
simc=/tmp/sim-mut
out=/tmp/sim-mut-out
git -C /repo worktree remove --force "$wt" >/dev/null 2>&1
git -C /repo worktree add -q --detach "$wt" HEAD || exit 2
rm -rf "$out"; mkdir -p "$simc" "$out"
# the build output of an earlier invocation is kept (KEEP=1) and reused: only sources are refreshed
rsync -a --delete --exclude target --exclude target-asan /verif/sim/ "$simc/sim/"
cp /verif/run "$simc/run"; cp /verif/known_findings.json "$out/"
sed -i "s|/repo/src/lib.rs|$wt/src/lib.rs|" "$simc/sim/jubako-shadow/Cargo.toml"
sed -i "s|^target-dir = .*|target-dir = \"$simc/sim/target\"|" "$simc/sim/.cargo/config.toml"
export CARGO_TARGET_DIR="$simc/sim/target" VERIF_DIR="$out" VERIF_WORKERS="${VERIF_WORKERS:-12}"
for d in /verif/seeded/*/; do
  name=$(basename "$d")
  case "$name" in *"$filter"*) ;; *) continue ;; esac
  prop=$(python3 -c "import json,sys; print(json.load(open('$d/meta.json'))['breaks_property'])" 2>/dev/null || echo "${name%%-*}")
  check=$(echo "$prop" | tr 'A-Z' 'a-z')
  [ -n "${CHECK:-}" ] && check="$CHECK"
  git -C "$wt" checkout -q -- . 
  if ! git -C "$wt" apply "$d/patch.diff" 2>/dev/null; then
    if [ -f "$d/patch.rebased.diff" ] && git -C "$wt" apply "$d/patch.rebased.diff" 2>/dev/null; then :; else
      echo "$name ($prop): APPLY-FAILED"; continue; fi
  fi
  log="$out/$name.log"
  (cd "$simc" && ./run "$check" --tier "${TIER:-quick}") >"$log" 2>&1; rc=$?
  cp "$simc"/sim/target/asan-*.log "$out/" 2>/dev/null
  first=$(grep -m1 -A1 "^VIOLATION" "$log" | tail -1 | cut -c1-150)
  case $rc in
    1) echo "$name ($prop): CAUGHT  $first" ;;
    0) echo "$name ($prop): MISSED" ;;
    *) echo "$name ($prop): HARNESS-ERROR rc=$rc $(tail -1 "$log" | cut -c1-120)" ;;
  esac
done
if [ -n "${KEEP:-}" ]; then echo "kept: $wt $simc (remove with: git -C /repo worktree remove --force $wt; rm -rf $simc)"; exit 0; fi
git -C /repo worktree remove --force "$wt"
rm -rf "$simc"
