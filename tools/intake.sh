#!/bin/bash
# Take a sub-agent's seeded change into /verif/seeded/<name>/ and confirm it independently.
#   tools/intake.sh <round-dir> <prop> <A|B> <name>      e.g. tools/intake.sh /tmp/r4 C11 A C11-g
set -u
rd="$1"; prop="$2"; x="$3"; name="$4"
src="$rd/$prop/out/$x"
dst="/verif/seeded/$name"
mkdir -p "$dst"
cp "$src/patch.diff" "$src/demo.rs" "$dst/" || exit 2
[ -f "$src/notes.md" ] && cp "$src/notes.md" "$dst/"
/verif/tools/verify_mutant.sh "$dst" "$name"
